//! C11 (mate announcements vs. retrograde tables) and C12 (shallow search vs. plain negamax).
#![allow(dead_code)]
use crate::board::BoardState;
use crate::bridge::*;
use crate::draw_table::DrawTable;
use crate::e2_clockpoints::*;
use crate::json::J;
use crate::refsearch::{shown_score, Ref};
use crate::report::Report;
use crate::rules::{self, Mv, Pos};
use crate::tb::{self, Table, Val};
use crate::zobrist::ZobristHasher;
use std::sync::atomic::{AtomicU64, AtomicUsize, Ordering};

// quick tier: white king in the a1-d4 quarter of the board (16 squares)
const TRIANGLE: [u8; 16] = [0, 1, 2, 3, 8, 9, 10, 11, 16, 17, 18, 19, 24, 25, 26, 27];

pub fn fresh_root(pos: &Pos, h: &ZobristHasher) -> Root {
    let board = board_of_pos(pos, h);
    let mut table = DrawTable::new();
    table.table.insert(board.zobrist_key, 1);
    Root { name: pos.fen(), command: format!("position fen {}", pos.fen()), board, table, pos: *pos }
}

fn build_tables(rep: &Report) -> Vec<(String, Table)> {
    let mut out = Vec::new();
    for (name, extra, expect_max) in [("KQK", vec![rules::pc(rules::WHITE, rules::Q)], 19u16), ("KRK", vec![rules::pc(rules::WHITE, rules::R)], 31u16)] {
        let t = tb::build(&extra, threads());
        if t.max_win() != expect_max {
            crate::report::machinery_error(&format!("retrograde table {}: longest win is {} plies, well-known maximum is {} plies", name, t.max_win(), expect_max));
        }
        // forward validation at distance <= 2 with the oracle
        let mut checked = 0;
        for (i, p) in t.positions.iter().enumerate().step_by(97) {
            let mate1 = p.legal_moves().iter().any(|m| p.make(m).is_checkmate());
            if mate1 != (t.val[i] == Val::Win(1)) || p.is_checkmate() != (t.val[i] == Val::Loss(0)) {
                crate::report::machinery_error(&format!("retrograde table {} disagrees with forward oracle search at {}", name, p.fen()));
            }
            checked += 1;
        }
        rep.add("tb_positions", t.positions.len() as u64);
        rep.add("tb_forward_validations", checked);
        out.push((name.to_string(), t));
    }
    out
}

fn info_score(i: &Info) -> (bool, i64) {
    match (i.mate, i.cp) {
        (Some(m), _) => (true, m),
        (_, Some(c)) => (false, c),
        _ => (false, 0),
    }
}

fn c11_case(root: &Root, depth: u8, line: &str) -> J {
    J::obj().set("kind", J::s("e2-search")).set("position_command", J::s(&root.command)).set("position_fen", J::s(&root.pos.fen())).set("expiry_index", J::s("never")).set("stop_after_iteration", J::Int(depth as i128)).set("line", J::s(line))
}

pub fn run_c11(rep: &Report) -> i32 {
    explore_c11(rep, true)
}

/// the exploration behind C11; with finish = false the caller (C18) writes the evidence
pub fn explore_c11(rep: &Report, finish: bool) -> i32 {
    let quick = rep.quick();
    let depth: u8 = if quick { 3 } else { 5 };
    let h = ZobristHasher::create_zobrist_hasher();
    let tables = build_tables(rep);
    let searched = AtomicU64::new(0);
    let nodes = AtomicU64::new(0);
    let mate_claims = AtomicU64::new(0);
    let neg_claims = AtomicU64::new(0);
    let mate1_roots = AtomicU64::new(0);
    let avoid_roots = AtomicU64::new(0);
    let stalemate_moves = AtomicU64::new(0);
    let stalemate_not_zero = AtomicU64::new(0);
    let infos_n = AtomicU64::new(0);
    // roots with a mate in one, swept over every expiry point afterwards
    let mate1_sweep: std::sync::Mutex<Vec<Pos>> = std::sync::Mutex::new(Vec::new());
    for (name, t) in &tables {
        let idx = AtomicUsize::new(0);
        let n = t.positions.len();
        std::thread::scope(|s| {
            for _ in 0..threads() {
                s.spawn(|| loop {
                    let i = idx.fetch_add(1, Ordering::Relaxed);
                    if i >= n {
                        break;
                    }
                    let pos = &t.positions[i];
                    if t.children[i].is_empty() {
                        continue; // terminal
                    }
                    if quick && !TRIANGLE.contains(&pos.king_sq(rules::WHITE).unwrap()) {
                        continue;
                    }
                    let root = fresh_root(pos, &h);
                    let run = run_search(&root.board, &root.table, None, depth);
                    searched.fetch_add(1, Ordering::Relaxed);
                    nodes.fetch_add(run.queries, Ordering::Relaxed);
                    if let Some(p) = &run.panicked {
                        rep.fail("C07", "search-panic", format!("{}: {}", root.name, p), c11_case(&root, depth, ""));
                        continue;
                    }
                    let facts = RootFacts { legal: t.moves[i].clone(), successors: Vec::new() };
                    check_infos(rep, &root, &facts, &run, None, depth, &infos_n);
                    let infos: Vec<Info> = run.infos.iter().filter_map(|l| parse_info(l).ok()).collect();
                    if infos.len() != run.sent.len() {
                        continue; // reported by C18's oracle
                    }
                    let child_of = |b: &BoardState| -> Option<(Mv, Pos)> {
                        let m = move_of_successor(pos, b)?;
                        if !t.moves[i].contains(&m) {
                            return None;
                        }
                        Some((m, pos.make(&m)))
                    };
                    let tb_of = |p: &Pos| -> Val { t.get(p).unwrap_or(Val::Draw) };
                    // (1) mate in one is played once iteration 1 has finished
                    if t.val[i] == Val::Win(1) {
                        if mate1_roots.fetch_add(1, Ordering::Relaxed) % (if quick { 97 } else { 11 }) == 0 {
                            mate1_sweep.lock().unwrap().push(*pos);
                        }
                        if let Some(j) = infos.iter().rposition(|x| x.depth == 1) {
                            match child_of(&run.sent[j]) {
                                Some((m, c)) => {
                                    if !c.is_checkmate() {
                                        rep.fail("C11", "mate-in-one-not-played", format!("{} ({}): mate in one exists, iteration 1 ends with {} which does not mate", root.name, name, m.uci()), c11_case(&root, 1, &infos[j].raw));
                                    }
                                }
                                None => {}
                            }
                        }
                    }
                    // (2) does not walk into a mate in one once iteration 2 has finished, if avoidable
                    let walks_into = |c: &Pos| c.legal_moves().iter().any(|m2| c.make(m2).is_checkmate());
                    let avoidable = t.moves[i].iter().any(|m| !walks_into(&pos.make(m)));
                    let some_walk = t.moves[i].iter().any(|m| walks_into(&pos.make(m)));
                    if avoidable && some_walk {
                        avoid_roots.fetch_add(1, Ordering::Relaxed);
                        // the move iteration 2 ends with, and every move handed back later (the I/O thread plays
                        // the latest move it holds when the clock runs out, so each of them can be the move played)
                        let last2 = infos.iter().rposition(|x| x.depth == 2);
                        for j in 0..infos.len() {
                            if Some(j) == last2 || infos[j].depth >= 3 {
                                if let Some((m, c)) = child_of(&run.sent[j]) {
                                    if walks_into(&c) {
                                        rep.fail("C11", if infos[j].depth >= 3 { "walks-into-mate-in-one/handed-back-after-iteration-2" } else { "walks-into-mate-in-one" }, format!("{} ({}): in iteration {} the search hands back {} after which the opponent mates at once, although it can be avoided and iteration 2 has finished", root.name, name, infos[j].depth, m.uci()), c11_case(&root, depth, &infos[j].raw));
                                    }
                                }
                            }
                        }
                    }
                    // (3) truth of every mate announcement, (4) stalemate
                    for (j, info) in infos.iter().enumerate() {
                        let (m, child) = match child_of(&run.sent[j]) {
                            Some(x) => x,
                            None => continue,
                        };
                        let last_of_depth = j + 1 == infos.len() || infos[j + 1].depth != info.depth;
                        if child.is_stalemate() {
                            stalemate_moves.fetch_add(1, Ordering::Relaxed);
                            // the statement forbids a MATE score for a stalemate; a horizon leaf valued by the static
                            // evaluation (iteration 1) is not a mate claim and is only counted
                            if info.mate.is_some() {
                                rep.fail("C11", "stalemate-reported-as-mate", format!("{} ({}): {} stalemates but is reported as '{}'", root.name, name, m.uci(), info.raw), c11_case(&root, depth, &info.raw));
                            } else if info.cp != Some(0) {
                                stalemate_not_zero.fetch_add(1, Ordering::Relaxed);
                            }
                        }
                        if let Some(nm) = info.mate {
                            if nm == 0 {
                                rep.fail("C11", "mate-announcement-without-a-distance", format!("{} ({}): '{}' announces a mate in 0 moves; the table says root {:?}", root.name, name, info.raw, t.val[i]), c11_case(&root, depth, &info.raw));
                            }
                            if nm > 0 {
                                mate_claims.fetch_add(1, Ordering::Relaxed);
                                let ok_child = matches!(tb_of(&child), Val::Loss(p) if (p as i64) <= 2 * nm - 2);
                                let ok_root = matches!(t.val[i], Val::Win(p) if (p as i64) <= 2 * nm - 1);
                                if !ok_child || !ok_root {
                                    rep.fail("C11", &format!("false-mate-announcement/iteration-{}", info.depth), format!("{} ({}): '{}' but the table says root {:?}, after {} {:?}", root.name, name, info.raw, t.val[i], m.uci(), tb_of(&child)), c11_case(&root, depth, &info.raw));
                                }
                            } else if nm < 0 {
                                neg_claims.fetch_add(1, Ordering::Relaxed);
                                let ok_child = matches!(tb_of(&child), Val::Win(p) if (p as i64) <= 2 * (-nm) - 1);
                                if !ok_child {
                                    rep.fail("C11", &format!("false-mated-announcement/iteration-{}", info.depth), format!("{} ({}): '{}' but after {} the table says {:?}", root.name, name, info.raw, m.uci(), tb_of(&child)), c11_case(&root, depth, &info.raw));
                                }
                                if last_of_depth {
                                    let ok_root = matches!(t.val[i], Val::Loss(p) if (p as i64) <= 2 * (-nm));
                                    if !ok_root {
                                        rep.fail("C11", &format!("false-mated-verdict/iteration-{}", info.depth), format!("{} ({}): iteration {} ends with '{}' but the table says root {:?}", root.name, name, info.depth, info.raw, t.val[i]), c11_case(&root, depth, &info.raw));
                                    }
                                }
                            }
                        }
                    }
                    if i % 20011 == 0 {
                        rep.sample(J::obj().set("family", J::s(name)).set("position", J::s(&pos.fen())).set("table_value", J::s(&format!("{:?}", t.val[i]))).set("info_lines", J::strs(&run.infos.iter().map(|l| strip_time(l)).collect::<Vec<_>>())));
                    }
                });
            }
        });
    }
    // ---- family B: back-rank positions with a loose piece as bait (mate in one to give or to walk into)
    let fam_b = back_rank_family();
    let b_searched = AtomicU64::new(0);
    let b_mate1 = AtomicU64::new(0);
    let b_avoid = AtomicU64::new(0);
    let b_changed = AtomicU64::new(0);
    let b_history = AtomicU64::new(0);
    {
        let idx = AtomicUsize::new(0);
        let stride = if quick { 5 } else { 1 };
        std::thread::scope(|s| {
            for _ in 0..threads() {
                s.spawn(|| loop {
                    let i = idx.fetch_add(1, Ordering::Relaxed);
                    if i >= fam_b.len() {
                        break;
                    }
                    if i % stride != 0 {
                        continue;
                    }
                    let pos = &fam_b[i];
                    let legal = pos.legal_moves();
                    if legal.is_empty() {
                        continue;
                    }
                    let root = fresh_root(pos, &h);
                    let d: u8 = std::env::var("WMC_C11_DEPTH").ok().and_then(|x| x.parse().ok()).unwrap_or(if quick { 5 } else { 6 }); // null-move pruning works from iteration 4 on
                    let run = run_search(&root.board, &root.table, None, d);
                    b_searched.fetch_add(1, Ordering::Relaxed);
                    nodes.fetch_add(run.queries, Ordering::Relaxed);
                    if run.panicked.is_some() {
                        rep.fail("C07", "search-panic", format!("{}: {:?}", root.name, run.panicked), c11_case(&root, d, ""));
                        continue;
                    }
                    let facts = RootFacts { legal: legal.clone(), successors: Vec::new() };
                    check_infos(rep, &root, &facts, &run, None, d, &infos_n);
                    let infos: Vec<Info> = run.infos.iter().filter_map(|l| parse_info(l).ok()).collect();
                    if infos.len() != run.sent.len() {
                        continue;
                    }
                    let walks_into = |c: &Pos| c.legal_moves().iter().any(|m2| c.make(m2).is_checkmate());
                    let mate1 = legal.iter().any(|m| pos.make(m).is_checkmate());
                    if mate1 {
                        if b_mate1.fetch_add(1, Ordering::Relaxed) % (if quick { 13 } else { 3 }) == 0 {
                            mate1_sweep.lock().unwrap().push(*pos);
                        }
                        if let Some(j) = infos.iter().rposition(|x| x.depth == 1) {
                            if let Some(m) = move_of_successor(pos, &run.sent[j]) {
                                if !pos.make(&m).is_checkmate() {
                                    rep.fail("C11", "mate-in-one-not-played", format!("{}: mate in one exists, iteration 1 ends with {} which does not mate", root.name, m.uci()), c11_case(&root, 1, &infos[j].raw));
                                }
                            }
                        }
                    }
                    let avoidable = legal.iter().any(|m| !walks_into(&pos.make(m)));
                    let some_walk = legal.iter().any(|m| walks_into(&pos.make(m)));
                    if avoidable && some_walk && !mate1 {
                        b_avoid.fetch_add(1, Ordering::Relaxed);
                        let last1 = infos.iter().rposition(|x| x.depth == 1);
                        if let Some(j) = last1 {
                            if let Some(m) = move_of_successor(pos, &run.sent[j]) {
                                if walks_into(&pos.make(&m)) {
                                    b_changed.fetch_add(1, Ordering::Relaxed); // iteration 1 liked the blunder: iteration 2 has to correct it
                                }
                            }
                        }
                        let last2 = infos.iter().rposition(|x| x.depth == 2);
                        for j in 0..infos.len() {
                            if Some(j) == last2 || infos[j].depth >= 3 {
                                if let Some(m) = move_of_successor(pos, &run.sent[j]) {
                                    if walks_into(&pos.make(&m)) {
                                        rep.fail("C11", if infos[j].depth >= 3 { "walks-into-mate-in-one/handed-back-after-iteration-2" } else { "walks-into-mate-in-one" }, format!("{}: in iteration {} the search hands back {} after which the opponent mates at once, although it can be avoided and iteration 2 has finished", root.name, infos[j].depth, m.uci()), c11_case(&root, d, &infos[j].raw));
                                    }
                                }
                            }
                        }
                    }
                    // the same root reached again through a game: blunder, quiet reply, both moves taken back. Every
                    // position of the cycle has then occurred once before (the root twice); a move into a position
                    // that occurred ONCE is not a draw, so the blunder is still a blunder
                    if avoidable && some_walk && !mate1 {
                        if let Some(cmd) = history_variant(pos, &legal, &walks_into) {
                            let hroot = root_from_command(&cmd, &h);
                            let hrun = run_search(&hroot.board, &hroot.table, None, d);
                            b_history.fetch_add(1, Ordering::Relaxed);
                            nodes.fetch_add(hrun.queries, Ordering::Relaxed);
                            let hinfos: Vec<Info> = hrun.infos.iter().filter_map(|l| parse_info(l).ok()).collect();
                            if hrun.panicked.is_none() && hinfos.len() == hrun.sent.len() {
                                let last2 = hinfos.iter().rposition(|x| x.depth == 2);
                                for j in 0..hinfos.len() {
                                    if Some(j) == last2 || hinfos[j].depth >= 3 {
                                        if let Some(m) = move_of_successor(pos, &hrun.sent[j]) {
                                            if walks_into(&pos.make(&m)) {
                                                rep.fail("C11", "walks-into-mate-in-one/with-game-history", format!("'{}': in iteration {} the search hands back {} after which the opponent mates at once, although it can be avoided and iteration 2 has finished", cmd, hinfos[j].depth, m.uci()), J::obj().set("kind", J::s("e2-search")).set("position_command", J::s(&cmd)).set("position_fen", J::s(&pos.fen())).set("expiry_index", J::s("never")).set("stop_after_iteration", J::Int(d as i128)).set("line", J::s(&hinfos[j].raw)));
                                            }
                                        }
                                    }
                                }
                            }
                        }
                    }
                    // mate announcements of one move are checked against the rules directly
                    for (j, info) in infos.iter().enumerate() {
                        if let (Some(nm), Some(m)) = (info.mate, move_of_successor(pos, &run.sent[j])) {
                            mate_claims.fetch_add(1, Ordering::Relaxed);
                            let child = pos.make(&m);
                            if nm == 1 && !child.is_checkmate() {
                                rep.fail("C11", "false-mate-announcement/iteration-1", format!("{}: '{}' but {} does not mate", root.name, info.raw, m.uci()), c11_case(&root, d, &info.raw));
                            }
                            if nm == -1 && !walks_into(&child) {
                                rep.fail("C11", "false-mated-announcement", format!("{}: '{}' but after {} there is no mate in one", root.name, info.raw, m.uci()), c11_case(&root, d, &info.raw));
                            }
                            if child.is_stalemate() {
                                rep.fail("C11", "stalemate-reported-as-mate", format!("{}: '{}'", root.name, info.raw), c11_case(&root, d, &info.raw));
                            }
                        }
                    }
                });
            }
        });
    }
    // ---- every expiry point on roots with a mate in one: once iteration 1 has finished, the move the search
    // holds (the last one handed back) gives mate, wherever the clock cuts the later iterations
    let mut sweep_roots: Vec<Pos> = mate1_sweep.into_inner().unwrap();
    for f in ["6k1/5ppp/8/8/8/8/8/R3K3 w Q - 0 1", "7k/8/5K2/6Q1/8/8/8/8 w - - 0 1", "k7/8/1K6/8/8/8/8/7R w - - 0 1", "r1bqkb1r/pppp1ppp/2n2n2/4p2Q/2B1P3/8/PPPP1PPP/RNB1K1NR w KQkq - 4 4"] {
        sweep_roots.push(Pos::from_fen(f).unwrap());
    }
    // promotions at the root: a mate by under-promotion (all four promotions of a pawn share from and to), and a
    // queen promotion on offer that is not the mate
    for f in ["6nb/5Ppk/7p/8/8/8/8/K7 w - - 0 1", "3n3k/1P6/6K1/8/8/8/8/5R2 w - - 0 1"] {
        let p = Pos::from_fen(f).expect("promotion mate fen");
        for p in [p, p.mirror()] {
            if !p.is_legal_position() || !p.legal_moves().iter().any(|m| p.make(m).is_checkmate()) {
                crate::report::machinery_error(&format!("C11 sweep root {} has no mate in one", p.fen()));
            }
            sweep_roots.push(p);
        }
    }
    for (i, f) in MATE_RACE_ROOTS.iter().enumerate() {
        if !quick || i % 2 == 0 {
            sweep_roots.push(Pos::from_fen(f).expect("mate race fen"));
        }
    }
    {
        let sm = special_move_check_positions(true, 1);
        let stride = if quick { 400 } else { 40 };
        for (i, p) in sm.iter().enumerate() {
            if i % stride == 0 && p.legal_moves().iter().any(|m| m.promo != 0 && p.make(m).is_checkmate()) {
                sweep_roots.push(*p);
            }
        }
    }
    let sweep_points = AtomicU64::new(0);
    let full_runs = AtomicU64::new(0);
    let mut session_roots: Vec<(Pos, Vec<u64>)> = Vec::new();
    for pos in &sweep_roots {
        let root = fresh_root(pos, &h);
        let pieces = pos.b.iter().filter(|x| **x != 0).count();
        let d: u8 = if pieces > 10 { 2 } else if quick { 3 } else { 4 };
        // the whole search, no depth stop: with a mate in one every iteration is trivial, so all 99 of them run;
        // the search must come to its end by itself, and every line of it is judged
        {
            let cap: u64 = 400_000;
            let full = run_search(&root.board, &root.table, Some(cap), 0);
            nodes.fetch_add(full.queries, Ordering::Relaxed);
            let facts = RootFacts { legal: pos.legal_moves(), successors: Vec::new() };
            check_infos(rep, &root, &facts, &full, Some(cap), 0, &infos_n);
            full_runs.fetch_add(1, Ordering::Relaxed);
            if full.panicked.is_none() {
                let deepest = full.infos.iter().filter_map(|l| parse_info(l).ok()).map(|i| i.depth).max().unwrap_or(0);
                if full.queries >= cap {
                    rep.fail("C18", "search-does-not-end-at-its-depth-limit", format!("{}: the search was still running after {} clock consultations (deepest iteration reported: {}, {} info lines)", root.name, cap, deepest, full.infos.len()), J::obj().set("kind", J::s("e2-search")).set("position_command", J::s(&root.command)).set("position_fen", J::s(&pos.fen())).set("expiry_index", J::Int(cap as i128)).set("stop_after_iteration", J::Int(0)));
                }
                if let Some(last) = full.sent.last() {
                    if let Some(m) = move_of_successor(pos, last) {
                        if !pos.make(&m).is_checkmate() {
                            rep.fail("C11", "mate-in-one-not-played/full-search", format!("{}: after the whole search the move held is {} which does not mate", root.name, m.uci()), J::obj().set("kind", J::s("e2-search")).set("position_command", J::s(&root.command)).set("position_fen", J::s(&pos.fen())).set("expiry_index", J::Int(cap as i128)).set("stop_after_iteration", J::Int(0)));
                        }
                    }
                }
            }
        }
        let r1 = run_search(&root.board, &root.table, None, 1);
        let k1 = r1.queries; // consultations until iteration 1 has finished
        let rd = run_search(&root.board, &root.table, None, d);
        let kmax = rd.queries;
        session_roots.push((*pos, vec![k1, (k1 + kmax) / 2, kmax]));
        let idx = AtomicU64::new(k1);
        std::thread::scope(|s| {
            for _ in 0..threads() {
                s.spawn(|| loop {
                    let k = idx.fetch_add(1, Ordering::Relaxed);
                    if k > kmax {
                        break;
                    }
                    let run = run_search(&root.board, &root.table, Some(k), d);
                    sweep_points.fetch_add(1, Ordering::Relaxed);
                    nodes.fetch_add(run.queries, Ordering::Relaxed);
                    if run.panicked.is_some() {
                        continue; // C07's oracle
                    }
                    if let Some(last) = run.sent.last() {
                        if let Some(m) = move_of_successor(pos, last) {
                            if !pos.make(&m).is_checkmate() {
                                rep.fail("C11", "mate-in-one-not-played/clock-expiring-after-iteration-1", format!("{}: iteration 1 has finished (it needs {} clock consultations), the clock expires at consultation {}, and the move held is {} which does not mate", root.name, k1, k, m.uci()), J::obj().set("kind", J::s("e2-search")).set("position_command", J::s(&root.command)).set("position_fen", J::s(&pos.fen())).set("expiry_index", J::Int(k as i128)).set("stop_after_iteration", J::Int(d as i128)));
                            }
                        }
                    }
                    for l in &run.infos {
                        if let Ok(info) = parse_info(l) {
                            if let Some(nm) = info.mate {
                                // with a mate in one on the board every "mate N", N >= 1, is true (a forced mate in at
                                // most N moves exists); a mate against the side to move is not
                                if nm < 1 {
                                    rep.fail("C11", "false-mate-announcement/clock-expiring", format!("{}: expiry at consultation {}: '{}' although the side to move mates in one", root.name, k, info.raw), J::obj().set("kind", J::s("e2-search")).set("position_command", J::s(&root.command)).set("position_fen", J::s(&pos.fen())).set("expiry_index", J::Int(k as i128)).set("stop_after_iteration", J::Int(d as i128)).set("line", J::s(l)));
                                }
                            }
                        }
                    }
                });
            }
        });
    }
    // ---- the same roots through the whole go path of the real binary (search thread, channel, I/O thread,
    // bestmove text): what is PLAYED mates, once iteration 1 has finished
    let played = crate::e4_session::mate_in_one_sessions(rep, &session_roots);
    rep.add("mate_in_one_roots_played_through_the_real_binary", played);
    // ---- mates given by castling, en passant or promotion (complete special-move families, filtered by the rules)
    let special_mates = special_move_check_positions(true, 1);
    let sm_searched = AtomicU64::new(0);
    let sm_unannounced = AtomicU64::new(0);
    {
        let idx = AtomicUsize::new(0);
        std::thread::scope(|s| {
            for _ in 0..threads() {
                s.spawn(|| loop {
                    let i = idx.fetch_add(1, Ordering::Relaxed);
                    if i >= special_mates.len() {
                        break;
                    }
                    let pos = &special_mates[i];
                    let root = fresh_root(pos, &h);
                    let run = run_search(&root.board, &root.table, None, 2);
                    sm_searched.fetch_add(1, Ordering::Relaxed);
                    nodes.fetch_add(run.queries, Ordering::Relaxed);
                    if run.panicked.is_some() {
                        continue;
                    }
                    let infos: Vec<Info> = run.infos.iter().filter_map(|l| parse_info(l).ok()).collect();
                    if infos.len() != run.sent.len() {
                        continue;
                    }
                    for d in [1u32, 2] {
                        if let Some(j) = infos.iter().rposition(|x| x.depth == d) {
                            if let Some(m) = move_of_successor(pos, &run.sent[j]) {
                                if !pos.make(&m).is_checkmate() {
                                    rep.fail("C11", "mate-in-one-not-played/mate-by-special-move", format!("{}: a mate in one exists (by castling, en passant or promotion); iteration {} ends with {} ('{}') which does not mate", root.name, d, m.uci(), infos[j].raw), c11_case(&root, d as u8, &infos[j].raw));
                                } else if infos[j].mate != Some(1) {
                                    // the statement does not oblige the engine to ANNOUNCE a mate it plays: counted only
                                    sm_unannounced.fetch_add(1, Ordering::Relaxed);
                                }
                            }
                        }
                    }
                });
            }
        });
    }
    rep.add("roots_with_a_mate_in_one_by_castling_en_passant_or_promotion", sm_searched.load(Ordering::Relaxed));
    rep.add("observation_mating_move_played_without_announcing_mate", sm_unannounced.load(Ordering::Relaxed));
    rep.add("of_those_mate_by_en_passant", special_mates.iter().filter(|p| p.legal_moves().iter().any(|m| p.is_en_passant(m) && p.make(m).is_checkmate())).count() as u64);
    rep.add("of_those_mate_by_castling", special_mates.iter().filter(|p| p.legal_moves().iter().any(|m| p.is_castle(m) && p.make(m).is_checkmate())).count() as u64);
    rep.add("mate_in_one_roots_swept_over_every_expiry_point", sweep_roots.len() as u64);
    rep.add("searches_run_to_their_own_end_all_99_iterations", full_runs.load(Ordering::Relaxed));
    rep.add("expiry_points_on_mate_in_one_roots", sweep_points.load(Ordering::Relaxed));
    rep.add("back_rank_family_positions_searched", b_searched.load(Ordering::Relaxed));
    rep.add("back_rank_family_roots_with_mate_in_one", b_mate1.load(Ordering::Relaxed));
    rep.add("back_rank_family_roots_searched_again_with_a_game_history_leading_back_to_them", b_history.load(Ordering::Relaxed));
    rep.add("back_rank_family_roots_where_a_blunder_into_mate_is_possible_and_avoidable", b_avoid.load(Ordering::Relaxed));
    rep.add("back_rank_family_roots_where_iteration_1_prefers_the_blunder", b_changed.load(Ordering::Relaxed));
    rep.add("positions_searched", searched.load(Ordering::Relaxed) + b_searched.load(Ordering::Relaxed));
    rep.add("mate_announcements_checked", mate_claims.load(Ordering::Relaxed));
    rep.add("mated_announcements_checked", neg_claims.load(Ordering::Relaxed));
    rep.add("roots_with_mate_in_one", mate1_roots.load(Ordering::Relaxed));
    rep.add("roots_where_walking_into_mate_is_possible_and_avoidable", avoid_roots.load(Ordering::Relaxed));
    rep.add("reported_moves_that_stalemate", stalemate_moves.load(Ordering::Relaxed));
    rep.add("observation_stalemating_moves_valued_by_static_evaluation_at_the_horizon", stalemate_not_zero.load(Ordering::Relaxed));
    rep.add("info_lines_checked", infos_n.load(Ordering::Relaxed));
    rep.assume("retrograde tables over the rules oracle are exact (validated by the well-known maxima 10 / 16 moves and by forward search at distance <= 2)");
    rep.assume("an info line inside an iteration states the value of the move it names first; the last line of an iteration is the iteration's verdict on the root");
    let rule = format!("every legal non-terminal position of the complete KQK and KRK families{} searched by the real get_best_move to the end of iteration {}; every info line judged against exact distance-to-mate tables", if quick { " with the white king in the a1-d4 quarter" } else { "" }, depth);
    let rule = format!("{}; plus the back-rank family (kings behind three pawns, one rook each on any back-rank file a-f, one loose black knight/bishop/pawn on any square of ranks 3-6, both sides to move{}) searched to iteration {}: mate in one played, no blunder into mate in one handed back once iteration 2 has finished", rule, if quick { ", every 5th position" } else { "" }, if quick { 5 } else { 6 });
    let rule = format!("{}; plus every clock-expiry index after the end of iteration 1 on {} roots with a mate in one: the move held always mates; plus every position of the castling / en-passant / promotion families in which such a move mates ({} roots)", rule, sweep_roots.len(), special_mates.len());
    if finish {
        rep.finish(searched.load(Ordering::Relaxed) + b_searched.load(Ordering::Relaxed) + sweep_points.load(Ordering::Relaxed) + sm_searched.load(Ordering::Relaxed), nodes.load(Ordering::Relaxed), rep.get("tb_forward_validations"), true, &rule)
    } else {
        rep.add("family_states", searched.load(Ordering::Relaxed) + b_searched.load(Ordering::Relaxed) + sweep_points.load(Ordering::Relaxed) + sm_searched.load(Ordering::Relaxed));
        rep.add("family_transitions", nodes.load(Ordering::Relaxed));
        0
    }
}

/// Positions of the castling / en-passant / promotion families in which a SPECIAL move gives check
/// (`mate` = false) or checkmate (`mate` = true); on a stride.
pub fn special_move_check_positions(mate: bool, stride: usize) -> Vec<Pos> {
    use crate::e1_posgraph::{family_castle, family_ep, family_ep_discovered, family_ep_discovered_with, family_promo};
    let items: Vec<Box<dyn Fn() -> Vec<Pos> + Sync + Send>> = {
        let mut v: Vec<Box<dyn Fn() -> Vec<Pos> + Sync + Send>> = Vec::new();
        for c in [rules::WHITE, rules::BLACK] {
            for ek in 0..64u8 {
                v.push(Box::new(move || family_castle(c, 1, &[], ek)));
            }
            for f in 0..8i8 {
                v.push(Box::new(move || family_ep(c, f)));
                v.push(Box::new(move || family_ep_discovered(c, f)));
                v.push(Box::new(move || family_ep_discovered_with(c, f, true)));
                v.push(Box::new(move || family_promo(c, false, f)));
                v.push(Box::new(move || family_promo(c, true, f)));
            }
        }
        v
    };
    let out: std::sync::Mutex<Vec<Pos>> = std::sync::Mutex::new(Vec::new());
    let idx = AtomicUsize::new(0);
    std::thread::scope(|s| {
        for _ in 0..threads() {
            s.spawn(|| loop {
                let i = idx.fetch_add(1, Ordering::Relaxed);
                if i >= items.len() {
                    break;
                }
                let mut keep = Vec::new();
                for (n, p) in (items[i])().into_iter().enumerate() {
                    // cheap filter first: some special pseudo-move of the side to move gives check
                    let them = p.stm ^ 1;
                    let special: Vec<Mv> = p.pseudo_moves().into_iter().filter(|m| p.is_castle(m) || p.is_en_passant(m) || m.promo != 0).collect();
                    let mut hit = false;
                    for m in &special {
                        let c = p.make(m);
                        if c.in_check(p.stm) || !c.in_check(them) {
                            continue; // illegal, or no check
                        }
                        if !mate || c.legal_moves().is_empty() {
                            hit = true;
                            break;
                        }
                    }
                    if hit && n % stride == 0 {
                        keep.push(p);
                    }
                }
                out.lock().unwrap().append(&mut keep);
            });
        }
    });
    let mut v = out.into_inner().unwrap();
    v.sort_by_key(|p| p.fen());
    v
}

/// `position fen <root> moves m x m' x'`: a blunder m (walks into mate in one), a quiet reply x, both taken back
fn history_variant(pos: &Pos, legal: &[Mv], walks_into: &dyn Fn(&Pos) -> bool) -> Option<String> {
    let quiet_reversible = |p: &Pos, m: &Mv| rules::kind_of(p.b[m.from as usize]) != rules::P && !p.is_capture(m) && !p.is_castle(m) && m.promo == 0;
    for m in legal {
        if !quiet_reversible(pos, m) || !walks_into(&pos.make(m)) {
            continue;
        }
        let p1 = pos.make(m);
        for x in p1.legal_moves() {
            if !quiet_reversible(&p1, &x) || p1.make(&x).is_checkmate() {
                continue;
            }
            let p2 = p1.make(&x);
            let mb = Mv { from: m.to, to: m.from, promo: 0 };
            if !p2.legal_moves().contains(&mb) {
                continue;
            }
            let p3 = p2.make(&mb);
            let xb = Mv { from: x.to, to: x.from, promo: 0 };
            if !p3.legal_moves().contains(&xb) {
                continue;
            }
            if p3.make(&xb) == *pos {
                return Some(format!("position fen {} moves {} {} {} {}", pos.fen(), m.uci(), x.uci(), mb.uci(), xb.uci()));
            }
        }
    }
    None
}

/// kings behind three pawns, a rook each on the back rank, a loose black piece as bait
fn back_rank_family() -> Vec<Pos> {
    let mut out = Vec::new();
    let base = Pos::from_fen("6k1/5ppp/8/8/8/8/5PPP/6K1 w - - 0 1").unwrap();
    for wr in 0..6u8 {
        for br in 0..6u8 {
            for bait in [rules::N, rules::B, rules::P] {
                for sq in 16..48u8 {
                    let mut p = base;
                    p.b[wr as usize] = rules::pc(rules::WHITE, rules::R);
                    p.b[(56 + br) as usize] = rules::pc(rules::BLACK, rules::R);
                    if p.b[sq as usize] != rules::EMPTY {
                        continue;
                    }
                    p.b[sq as usize] = rules::pc(rules::BLACK, bait);
                    for stm in [rules::WHITE, rules::BLACK] {
                        p.stm = stm;
                        if p.is_legal_position() {
                            out.push(p);
                        }
                    }
                }
            }
        }
    }
    out
}

// ================================================================================================ C12

fn c12_case(root: &Root, depth: u32, what: &str) -> J {
    J::obj().set("kind", J::s("e2-search")).set("position_command", J::s(&root.command)).set("position_fen", J::s(&root.pos.fen())).set("expiry_index", J::s("never")).set("stop_after_iteration", J::Int(depth as i128)).set("what", J::s(what))
}

/// the roots of C12: tb families (stride), low-material reach sets with history, repetition roots
/// The two-tower exchange position and all positions with at most `max_missing` participants removed.
pub fn exchange_tower_positions(max_missing: usize) -> Vec<Pos> {
    let base = Pos::from_fen("3r3k/1bnqb3/1nprpp1p/3p2p1/1NP1PP1P/1BNRB3/3R4/3Q3K w - - 0 1").expect("tower fen");
    // everything but the kings and the two target pawns (d5, g5) takes part
    let d5 = rules::sq_from_name("d5").unwrap();
    let g5 = rules::sq_from_name("g5").unwrap();
    let parts: Vec<u8> = (0..64u8).filter(|&s| base.b[s as usize] != rules::EMPTY && rules::kind_of(base.b[s as usize]) != rules::K && s != d5 && s != g5).collect();
    let mut out = Vec::new();
    let mut push = |p: &Pos| {
        for stm in [rules::WHITE, rules::BLACK] {
            let mut q = *p;
            q.stm = stm;
            if q.is_legal_position() && !q.legal_moves().is_empty() {
                out.push(q);
            }
        }
    };
    // subsets by increasing number of removed participants
    let n = parts.len();
    let mut idx: Vec<usize> = Vec::new();
    fn rec(parts: &[u8], base: &Pos, start: usize, left: usize, idx: &mut Vec<usize>, push: &mut dyn FnMut(&Pos)) {
        let mut p = *base;
        for &i in idx.iter() {
            p.b[parts[i] as usize] = rules::EMPTY;
        }
        push(&p);
        if left == 0 {
            return;
        }
        for i in start..parts.len() {
            idx.push(i);
            rec(parts, base, i + 1, left - 1, idx, push);
            idx.pop();
        }
    }
    let _ = n;
    rec(&parts, &base, 0, max_missing, &mut idx, &mut push);
    out
}

/// Dense positions (all 32 men) whose depth-1 value depends on captures far below the horizon: found offline
/// with `wmc chainfind` among 43,000 deterministic scrambles; the number is the deepest capture ply (counted
/// from the horizon) at which cutting the reference's capture extension changes the value. The check
/// re-measures this at run time and reports which cut depths still have a witness. The flag marks the roots
/// whose reference search is small enough for the quick tier.
pub const DEEP_CHAIN_ROOTS: &[(&str, u32, bool)] = &[
    ("1B3B2/1PN1KpP1/5n1b/RrPppp2/p1pRq1P1/rPpN2PP/bQP4p/3k2n1 w - - 0 1", 16, true),
    ("2B3nK/Pr1P1N1p/1rb1PQ1B/1pp1p2P/P1pp1pkp/b2PPN2/1n2PR1q/5R2 b - - 0 1", 16, true),
    ("4bR1b/4PP1K/pN1n1B2/pP2PQr1/N1Rppp2/1ppp1nB1/kPP1Pq1P/4r3 w - - 0 1", 18, false),
    ("7N/1qPp4/1PPp1pPP/1kBPpB2/1n1pp2K/R1rrP1P1/2NnpQp1/b1bR4 w - - 0 1", 19, true),
    ("2Q1KB2/4pP1P/rPPppp2/1qR2pRr/pNB1Pp1N/n2P1n2/2p1PPb1/3k3b b - - 0 1", 20, false),
    ("2nK2Q1/pp1pR1bN/3rr3/p2RP2P/PP1p2nB/1B1qN2P/1PpP1ppP/b6k b - - 0 1", 20, true),
    ("6N1/2qb2Pp/B3PpPp/kpp3P1/B1rQPPRR/nb1p1KpN/Pn3Pp1/4r3 b - - 0 1", 20, false),
    ("K5N1/p2B2PP/1PPk3r/Pp1P2pb/rP1p2Q1/Bnp1pp2/2pPb1qR/1n1R2N1 w - - 0 1", 20, true),
    ("NqBQnr2/2b1Kpp1/P1P1PP2/1r1PR1P1/2pppnBb/1pR1Pp2/2N1P1p1/1k6 w - - 0 1", 20, true),
    ("R2r2N1/2K1p2P/BBpPrPk1/pPq1pNPp/1P1P2Qp/p2pb3/1P3n2/1b2n1R1 w - - 0 1", 20, false),
    ("r2N3n/2PPbPP1/PpKp1p1B/1pP3P1/2Q1p3/1n1R1P1p/ppBNRr2/4b1kq b - - 0 1", 20, true),
    ("8/2N1ppPP/bK2P1RB/Rp3qpp/1P1r1nPr/1pb1QPPn/PpBpN3/5k2 b - - 0 1", 22, false),
    ("n7/K1pbr3/p3RP2/1P2NB2/pN1PP1P1/kPPpppnq/P1pbQrp1/5R1B b - - 0 1", 22, true),
    ("BBK5/P3QP1n/1Ppp1PPN/pp1P1rr1/PbR2p1p/p1nkPq1R/4p1b1/3N4 w - - 0 1", 23, true),
];

/// Games that end in a cross-check there-and-back (m1, m2+, m1^-1+): the search can run through the same
/// cycle again below its horizon, every node of it in check, and meets a position of the game a third time
/// there. Found offline with `wmc crosscheckfind` (105,000 such games among 30 million deterministic
/// scrambles; these are the ones whose depth-3 value depends on nodes near the horizon being on the
/// repetition record while their subtree is searched).
pub const CROSS_CHECK_HISTORIES: &[&str] = &[
    "position fen 1r1B4/rk1BK3/8/1B6/8/8/8/8 w - - 0 1 moves d7e8 b7c8 e8d7",
    "position fen 1r1B4/rk1BK3/8/1B6/8/8/8/8 w - - 0 1 moves d7c6 b7c8 c6d7",
    "position fen 8/8/1q5B/7r/1kb1K1Q1/8/8/2r2B2 b - - 0 1 moves c4d5 e4d3 d5c4",
    "position fen 8/8/1q5B/7r/1kb1K1Q1/8/8/2r2B2 b - - 0 1 moves c4a2 e4d3 a2c4",
    "position fen 2n2n2/8/8/8/8/8/1R5q/R1Kb3k b - - 0 1 moves d1e2 c1d2 e2d1",
    "position fen r7/b6k/1r6/5K2/4n3/8/B1B5/8 b - - 0 1 moves e4d6 f5f6 d6e4",
    "position fen 1B6/4b3/3b2bQ/8/5r2/4K3/8/2k5 b - - 0 1 moves f4g4 e3f3 g4f4",
    "position fen 1B6/4b3/3b2bQ/8/5r2/4K3/8/2k5 b - - 0 1 moves f4c4 e3f2 c4f4",
];

/// Queen-heavy positions with pawns one step from promotion beside heavy pieces on the last rank: the depth-1
/// or depth-2 value changes when the reference's capture search skips nodes whose static value is more than
/// 1500 below alpha ("delta pruning" that forgets what a capture with promotion gains). Found offline with
/// `wmc deltafind` (745 among 200,000 deterministic scrambles; the first 20).
pub const DELTA_PRUNING_ROOTS: &[&str] = &[
    "1Q1q3q/2P3P1/6K1/8/1Q5q/5k2/1p6/1R5R w - - 0 1",
    "1Q2K1qQ/1PP3b1/7q/2B5/6k1/4r3/1p1p4/4Q3 w - - 0 1",
    "1Qr5/2P2b2/b5k1/Q7/8/2Qq4/pK5p/6qQ b - - 0 1",
    "1br3Q1/3K1P2/3Q4/1k6/8/8/2qqp1p1/3Q4 b - - 0 1",
    "1k1q2q1/1P2BQQP/8/2K5/5q2/5Qq1/6p1/R2R4 w - - 0 1",
    "1k2q3/1P3P2/8/8/7q/3K1Qq1/1p1p4/2Q4B b - - 0 1",
    "1k5r/5r1P/1b6/7R/7B/6K1/6Qp/1Qqq2Q1 b - - 0 1",
    "1k6/2qPP3/Q7/4q3/5Q2/1qR2R2/4p1pK/1rr5 w - - 0 1",
    "1q1Q4/2P5/8/8/4k3/1K2q2Q/2p5/2Qq4 w - - 0 1",
    "1q1Qq3/4QP2/7K/8/1q3k2/7Q/3q1p2/8 w - - 0 1",
    "1q1b2Qr/3B1P1q/8/8/2K5/7q/kpp5/2Q5 b - - 0 1",
    "1q1r4/3P2q1/8/2k5/8/K7/1p1p4/4Q3 b - - 0 1",
    "1q2Rr2/1qP2P1Q/5k2/8/2R5/1K6/pp6/Q5R1 w - - 0 1",
    "1q2k3/P5R1/q7/8/8/2Q5/4pqp1/1QKb1Q1R b - - 0 1",
    "1B1q1r2/Pq6/7Q/5B2/8/2k5/1p3rp1/1qq2KQQ w - - 0 1",
    "1B1q3r/2PP4/8/5Q2/8/1b3K2/5p1q/4k3 w - - 0 1",
    "1B5q/QK1B1PPk/8/8/2Q5/3Q4/pb1q4/1R6 b - - 0 1",
    "1B5r/1kq2QP1/8/8/1qQ2q2/8/1p1p1K2/4Q2R w - - 0 1",
    "1Brq4/2qP2P1/7q/8/8/1k6/3p1p2/2K1Q1R1 w - - 0 1",
    "1K2qq2/4P3/7Q/k7/2Q5/8/2p3p1/5Q2 w - - 0 1",
];

/// Positions with a quiet mate in one next to a capture that mates in two through checks only (so that
/// iteration 1, thanks to the check extension, already sees a mate score before it tries the mate in one):
/// found offline with `wmc checkchainfind <n> -1` among 300,000 deterministic queen-heavy scrambles.
pub const MATE_RACE_ROOTS: &[&str] = &[
    "1K1b1q2/3q4/q4q1Q/Qbk5/8/5q2/B6Q/8 b - - 0 1",
    "1Q2K3/2R4Q/1q6/6k1/Q7/3Q4/3qR3/Q5q1 w - - 0 1",
    "1R6/q7/8/4q1q1/5k2/Q2Q2bK/1bQ5/7Q w - - 0 1",
    "1q5k/5Q2/8/1B3K2/1Q6/2qQ4/2R5/1q6 w - - 0 1",
    "2q1q3/Q4q2/2Q2RbQ/r4q2/3K4/8/5k2/8 b - - 0 1",
    "3Q4/6q1/Q1q5/5qQ1/Q7/7k/4K3/6Q1 w - - 0 1",
    "3r1q2/8/5Q2/k5qq/q7/2K3Q1/1Q6/2Q5 b - - 0 1",
    "4Q3/5q1q/8/3k3r/1Q6/2K3Q1/4Q3/3q4 w - - 0 1",
    "5q2/2k5/3qQ3/1Q1QQq2/1R1K4/8/3B4/8 w - - 0 1",
    "5q2/r4q2/8/1q3QQ1/3b4/6Q1/2K1k3/8 w - - 0 1",
    "8/2q5/q6k/Q4K2/1Q5q/5Q2/4q3/Q3Q3 b - - 0 1",
    "8/8/7Q/6qq/4Q3/1Q1K4/8/2k1q3 w - - 0 1",
    "8/8/QQ6/q2k4/4q3/Q1Q5/1q6/2Q2K2 w - - 0 1",
    "8/qq1Q3K/8/4q2k/6q1/1Q6/8/Q7 b - - 0 1",
    "Q2R4/2k1q3/5q2/b7/B7/3q4/3Q4/1Q4K1 w - - 0 1",
    "k3q3/q5q1/8/4q1Q1/Q5Q1/4B3/K7/6q1 b - - 0 1",
];

/// Queen-heavy positions with open kings whose depth-2 value depends on check extensions far from the root
/// (found offline with `wmc checkchainfind` among 1.5 million deterministic scrambles): the number is the
/// deepest ply at which the reference extends a check below them.
pub const CHECK_CHAIN_ROOTS: &[(&str, i32)] = &[
    ("2r1Q3/8/4BQQ1/2q2q2/7q/1K1q4/4k3/6Q1 w - - 0 1", 7),
    ("1q1R3k/R1r5/Q5K1/8/1qQ2Q1q/1Q6/8/8 b - - 0 1", 8),
    ("8/q2QQ1Q1/r7/8/4q2q/1Q4q1/2QK4/k6r b - - 0 1", 8),
    ("3Q4/6K1/q2Q4/7k/q7/8/Q2R1q2/Q6Q b - - 0 1", 9),
    ("3Q4/6Q1/Q4r1Q/K4q1q/5Q2/4q1qr/6B1/k7 w - - 0 1", 11),
    ("4k3/1QK5/1R5q/1q6/8/4q1q1/Q2Q1R2/Q3q2Q w - - 0 1", 10),
    ("Q6Q/1Q5K/4q3/3qq3/7q/5q1R/4k3/BQ6 w - - 0 1", 10),
    ("8/k1Kq4/q1Q1b3/1Q6/1q5Q/4b1Q1/2Q1q3/6B1 w - - 0 1", 11),
];

/// which plies a cut of the check extension would be noticed at (coverage statement, like the capture chains)
fn check_extension_coverage(rep: &Report, h: &ZobristHasher) -> u64 {
    let roots: Vec<Root> = CHECK_CHAIN_ROOTS.iter().filter_map(|(f, _)| Pos::from_fen(f)).map(|p| fresh_root(&p, h)).collect();
    let caps: Vec<i32> = (3..=12).collect();
    let value = |root: &Root, xcap: i32| -> Option<i32> {
        let succs = crate::move_generation::generate_moves(&root.board, crate::move_generation::MoveGenerationMode::AllMoves, h);
        let mut r = Ref::new(h, 20_000_000);
        r.xcap = xcap;
        let mut table = root.table.clone();
        let mut best = i32::MIN;
        for c in &succs {
            let v = -r.alphabeta(c, 1, 1, -10_000_000, 10_000_000, &mut table);
            if r.capped {
                return None;
            }
            best = best.max(v);
        }
        Some(best)
    };
    let jobs: Vec<(usize, usize)> = (0..roots.len()).flat_map(|r| (0..caps.len()).map(move |c| (r, c))).collect();
    let exact: Vec<Option<i32>> = crate::e4_session::run_parallel(roots.len(), |i| value(&roots[i], i32::MAX));
    let differs: Vec<bool> = crate::e4_session::run_parallel(jobs.len(), |j| {
        let (r, c) = jobs[j];
        match (exact[r], value(&roots[r], caps[c])) {
            (Some(a), Some(b)) => a != b,
            _ => false,
        }
    });
    let covered: Vec<i32> = caps.iter().enumerate().filter(|(ci, _)| jobs.iter().enumerate().any(|(j, (_, c))| c == ci && differs[j])).map(|(_, c)| *c).collect();
    let deepest = covered.iter().max().cloned().unwrap_or(0);
    rep.set_extra("check_extension_depth_coverage", J::obj().set("plies_at_which_stopping_the_check_extension_is_noticed", J::Arr(covered.iter().map(|c| J::Int(*c as i128)).collect())).set("deepest", J::Int(deepest as i128)).set("meaning", J::s("if checks were no longer extended from ply N on, the depth-2 value of at least one root would change, for every N listed")));
    rep.add("deepest_ply_with_a_check_extension_witness", deepest as u64);
    jobs.len() as u64
}

/// depth-1 value of a root by the reference with its capture extension cut after `qcap` plies
fn depth1_value(root: &Root, h: &ZobristHasher, qcap: u32) -> Option<i32> {
    let succs = crate::move_generation::generate_moves(&root.board, crate::move_generation::MoveGenerationMode::AllMoves, h);
    let mut r = Ref::new(h, 50_000_000);
    r.qcap = qcap;
    let mut table = root.table.clone();
    let mut best = i32::MIN;
    for c in &succs {
        let v = -r.alphabeta(c, 0, 1, -10_000_000, 10_000_000, &mut table);
        if r.capped {
            return None;
        }
        best = best.max(v);
    }
    Some(best)
}

/// which cut depths of the capture extension would be noticed on the deep-chain roots (coverage statement)
fn chain_depth_coverage(rep: &Report, h: &ZobristHasher) -> u64 {
    let quick = rep.quick();
    let chosen: Vec<&(&str, u32, bool)> = DEEP_CHAIN_ROOTS.iter().filter(|(_, _, q)| *q || !quick).collect();
    let roots: Vec<Root> = chosen.iter().filter_map(|(f, _, _)| Pos::from_fen(f)).map(|p| fresh_root(&p, h)).collect();
    let caps: Vec<u32> = (8..=26).collect();
    let recorded: Vec<u32> = chosen.iter().map(|(_, d, _)| *d).collect();
    let jobs: Vec<(usize, usize)> = (0..roots.len()).flat_map(|r| (0..caps.len()).map(move |c| (r, c))).filter(|(r, c)| !quick || caps[*c] == recorded[*r]).collect();
    let exact: Vec<Option<i32>> = crate::e4_session::run_parallel(roots.len(), |i| depth1_value(&roots[i], h, u32::MAX));
    let differs: Vec<bool> = crate::e4_session::run_parallel(jobs.len(), |j| {
        let (r, c) = jobs[j];
        match (exact[r], depth1_value(&roots[r], h, caps[c])) {
            (Some(a), Some(b)) => a != b,
            _ => false,
        }
    });
    let mut covered: Vec<u32> = Vec::new();
    for (ci, cap) in caps.iter().enumerate() {
        if jobs.iter().enumerate().any(|(j, (_, c))| *c == ci && differs[j]) {
            covered.push(*cap);
        }
    }
    let deepest = covered.iter().max().cloned().unwrap_or(0);
    rep.set_extra("capture_chain_depth_coverage", J::obj().set("cut_depths_with_a_witness_root", J::Arr(covered.iter().map(|c| J::Int(*c as i128)).collect())).set("deepest", J::Int(deepest as i128)).set("cut_depths_measured", J::s(if quick { "each root at the depth recorded for it" } else { "every root at every depth 8..=26" })).set("meaning", J::s("a capture extension cut after N plies changes the depth-1 value of at least one root for every N listed; deeper cuts are outside what this check can notice")));
    rep.add("deepest_capture_ply_below_the_horizon_with_a_witness", deepest as u64);
    jobs.len() as u64
}

fn c12_roots(rep: &Report, h: &ZobristHasher) -> Vec<Root> {
    let quick = rep.quick();
    let mut roots: Vec<Root> = Vec::new();
    // development aid: compare only the positions listed in a file (one FEN per line); never set by bin/check
    if let Ok(f) = std::env::var("WMC_C12_ROOTS_FILE") {
        for l in std::fs::read_to_string(&f).unwrap_or_default().lines() {
            if let Some(p) = Pos::from_fen(l.trim()) {
                roots.push(fresh_root(&p, h));
            }
        }
        rep.note(format!("WMC_C12_ROOTS_FILE is set: only {} listed positions are compared (development run, not a verdict for the property)", roots.len()));
        return roots;
    }
    // the expensive roots first (they are the long poles of the parallel run)
    for (f, _, in_quick) in DEEP_CHAIN_ROOTS {
        if *in_quick || !quick {
            roots.push(fresh_root(&Pos::from_fen(f).expect("deep chain fen"), h));
        }
    }
    for (f, _) in CHECK_CHAIN_ROOTS {
        roots.push(fresh_root(&Pos::from_fen(f).expect("check chain fen"), h));
    }
    for f in MATE_RACE_ROOTS {
        roots.push(fresh_root(&Pos::from_fen(f).expect("mate race fen"), h));
    }
    for f in DELTA_PRUNING_ROOTS {
        roots.push(fresh_root(&Pos::from_fen(f).expect("delta root fen"), h));
    }
    for c in CROSS_CHECK_HISTORIES {
        if crate::e4_session::pos_of_command(c).is_none() {
            crate::report::machinery_error(&format!("cross-check history {} is not a legal game", c));
        }
        roots.push(root_from_command(c, h));
    }
    // capture chains below the horizon of every length up to 22: one square attacked eight times and defended
    // eight times, a second one three against three, and every position obtained by taking away up to k of
    // the 22 participants; both sides to move
    for p in exchange_tower_positions(if quick { 1 } else { 3 }) {
        roots.push(fresh_root(&p, h));
    }
    for (_, extra) in [("KQK", vec![rules::pc(rules::WHITE, rules::Q)]), ("KRK", vec![rules::pc(rules::WHITE, rules::R)])] {
        let t = tb::build(&extra, threads());
        let stride = if quick { 20 } else { 3 };
        for (i, p) in t.positions.iter().enumerate() {
            if !t.children[i].is_empty() && i % stride == 0 {
                roots.push(fresh_root(p, h));
            }
        }
    }
    // K+P vs K with the pawn one or two steps from promotion, both colours, both sides to move, complete:
    // promotions (and the choice between them: stalemate tricks) inside the three-ply horizon
    for color in [rules::WHITE, rules::BLACK] {
        let ranks: [i8; 2] = if color == rules::WHITE { [5, 6] } else { [2, 1] };
        for wk in 0..64u8 {
            for bk in 0..64u8 {
                if wk == bk {
                    continue;
                }
                for &r in &ranks {
                    for f in 0..8i8 {
                        let psq = rules::sq_at(f, r).unwrap();
                        if psq == wk || psq == bk {
                            continue;
                        }
                        let mut p = Pos::empty();
                        p.b[wk as usize] = rules::pc(rules::WHITE, rules::K);
                        p.b[bk as usize] = rules::pc(rules::BLACK, rules::K);
                        p.b[psq as usize] = rules::pc(color, rules::P);
                        for stm in [rules::WHITE, rules::BLACK] {
                            p.stm = stm;
                            if p.is_legal_position() && !p.legal_moves().is_empty() {
                                roots.push(fresh_root(&p, h));
                            }
                        }
                    }
                }
            }
        }
    }
    // special moves that give check (castling with the rook, en passant with a discovered check, promotion):
    // at the horizon the check extension has to see them
    for p in special_move_check_positions(false, if quick { 60 } else { 3 }) {
        roots.push(fresh_root(&p, h));
    }
    // low-material roots of S1 with all move paths of length <= 2 (3 thorough) as history
    let plen = if quick { 2 } else { 3 };
    for (fen, _, _) in crate::e1_posgraph::S1_ROOTS {
        let pos = Pos::from_fen(fen).unwrap();
        if pos.b.iter().filter(|x| **x != 0).count() > 7 {
            continue;
        }
        let mut stack: Vec<(Pos, Vec<String>)> = vec![(pos, Vec::new())];
        while let Some((p, path)) = stack.pop() {
            if !p.legal_moves().is_empty() {
                let cmd = if path.is_empty() { format!("position fen {}", fen) } else { format!("position fen {} moves {}", fen, path.join(" ")) };
                roots.push(root_from_command(&cmd, h));
            }
            if path.len() < plen {
                for m in p.legal_moves() {
                    let mut np = path.clone();
                    np.push(m.uci());
                    stack.push((p.make(&m), np));
                }
            }
        }
    }
    for c in C07_ROOTS {
        roots.push(root_from_command(c, h));
    }
    // histories with repetitions
    for c in [
        "position fen 7k/8/8/8/8/8/R7/K7 w - - 0 1 moves a2b2 h8g8 b2a2 g8h8",
        "position fen 7k/8/8/8/8/8/R7/K7 w - - 0 1 moves a2b2 h8g8 b2a2 g8h8 a2b2 h8g8",
        "position fen 7k/8/8/8/8/8/R7/K7 w - - 0 1 moves a2b2 h8g8 b2a2 g8h8 a2b2 h8g8 b2a2",
        "position fen 7k/8/8/8/8/8/R7/K7 w - - 0 1 moves a2b2 h8g8 b2a2 g8h8 a2b2 h8g8 b2a2 g8h8 a2b2 h8g8 b2a2",
        "position fen 7k/8/8/8/8/8/R7/K7 w - - 0 1 moves a2b2 h8g8 b2a2 g8h8 a2b2 h8g8 b2a2 g8h8 a2b2 h8g8 b2a2 g8h8 a2b2 h8g8",
        "position fen 8/8/k7/p7/P7/K7/8/8 w - - 0 1 moves a3b3 a6b6 b3a3 b6a6 a3b3 a6b6 b3a3",
        "position fen 4k3/8/8/8/8/8/4P3/4K2R w K - 0 1 moves h1h2 e8d8 h2h1 d8e8 h1h2 e8d8 h2h1",
        "position fen 3qk3/8/8/8/8/8/8/3QK3 w - - 0 1 moves d1d2 d8d7 d2d1 d7d8 d1d2 d8d7",
        "position fen 3q3k/8/8/8/8/8/8/K3R3 w - - 0 1 moves e1g1 h8h7 g1e1 h7h8 e1g1 h8h7 g1e1 h7h8",
        "position fen 3q3k/8/8/8/8/8/8/K3R3 w - - 0 1 moves e1c1 h8h7 c1e1 h7h8 e1c1 h8h7 c1e1 h7h8",
        "position fen k3r3/8/8/8/8/8/8/3Q3K b - - 0 1 moves e8g8 h1h2 g8e8 h2h1 e8g8 h1h2 g8e8 h2h1",
        "position fen k3r3/8/8/8/8/8/8/3Q3K b - - 0 1 moves e8c8 h1h2 c8e8 h2h1 e8c8 h1h2 c8e8 h2h1",
    ] {
        roots.push(root_from_command(c, h));
    }
    roots
}

pub fn run_c12(rep: &Report) -> i32 {
    let quick = rep.quick();
    let h = ZobristHasher::create_zobrist_hasher();
    let roots = c12_roots(rep, &h);
    let searched = AtomicU64::new(0);
    let skipped = AtomicU64::new(0);
    let ref_nodes = AtomicU64::new(0);
    let lines = AtomicU64::new(0);
    let with_history = AtomicU64::new(0);
    let draws_by_repetition = AtomicU64::new(0);
    let idx = AtomicUsize::new(0);
    let node_cap: u64 = if quick { 5_000_000 } else { 50_000_000 };
    let small_cap: u64 = if quick { 100_000 } else { 1_000_000 };
    let ab_used = AtomicU64::new(0);
    let ab_crosschecked = AtomicU64::new(0);
    std::thread::scope(|s| {
        for _ in 0..threads() {
            s.spawn(|| loop {
                let i = idx.fetch_add(1, Ordering::Relaxed);
                if i >= roots.len() {
                    break;
                }
                let root = &roots[i];
                let pieces = root.pos.b.iter().filter(|x| **x != 0).count();
                let max_d: u32 = if pieces > 20 { 1 } else if pieces > 10 { 2 } else { 3 };
                if root.pos.legal_moves().is_empty() {
                    continue;
                }
                let run = run_search(&root.board, &root.table, None, max_d as u8);
                if run.panicked.is_some() {
                    rep.fail("C07", "search-panic", format!("{}: {:?}", root.name, run.panicked), c12_case(root, max_d, "panic"));
                    continue;
                }
                let infos: Vec<Info> = run.infos.iter().filter_map(|l| parse_info(l).ok()).collect();
                if infos.len() != run.sent.len() || infos.is_empty() {
                    rep.fail("C18", "info-and-move-counts-differ", format!("{}", root.name), c12_case(root, max_d, "info lines"));
                    continue;
                }
                if root.table.table.len() > 1 {
                    with_history.fetch_add(1, Ordering::Relaxed);
                }
                let succs = crate::move_generation::generate_moves(&root.board, crate::move_generation::MoveGenerationMode::AllMoves, &h);
                let mut capped = false;
                for d in 1..=max_d {
                    // reference values of all root successors at this iteration: plain negamax; where that is
                    // too large, textbook alpha-beta with a full window per root move (exact as well)
                    let mut r = Ref::new(&h, small_cap);
                    let mut vals: Vec<i32> = Vec::with_capacity(succs.len());
                    let mut table = root.table.clone();
                    for c in &succs {
                        vals.push(-r.negamax(c, (d - 1) as u8, 1, &mut table));
                        if r.capped {
                            break;
                        }
                    }
                    ref_nodes.fetch_add(r.nodes, Ordering::Relaxed);
                    let plain_done = !r.capped;
                    if !plain_done || i % 7 == 0 {
                        let mut r2 = Ref::new(&h, node_cap);
                        let mut vals2: Vec<i32> = Vec::with_capacity(succs.len());
                        let mut table = root.table.clone();
                        for c in &succs {
                            vals2.push(-r2.alphabeta(c, (d - 1) as u8, 1, -10_000_000, 10_000_000, &mut table));
                            if r2.capped {
                                break;
                            }
                        }
                        ref_nodes.fetch_add(r2.nodes, Ordering::Relaxed);
                        if r2.capped {
                            capped = true;
                            break;
                        }
                        if plain_done {
                            if vals != vals2 {
                                crate::report::machinery_error(&format!("reference alpha-beta disagrees with plain negamax on {} iteration {}", root.command, d));
                            }
                            ab_crosschecked.fetch_add(1, Ordering::Relaxed);
                        } else {
                            vals = vals2;
                            ab_used.fetch_add(1, Ordering::Relaxed);
                        }
                    }
                    let best = *vals.iter().max().unwrap();
                    if vals.iter().any(|v| *v == 0) {
                        draws_by_repetition.fetch_add(1, Ordering::Relaxed);
                    }
                    let at_depth: Vec<usize> = (0..infos.len()).filter(|j| infos[*j].depth == d).collect();
                    if at_depth.is_empty() {
                        rep.fail("C12", "no-result-for-iteration", format!("{}: iteration {} reported nothing", root.name, d), c12_case(root, d, "missing iteration"));
                        continue;
                    }
                    for &j in &at_depth {
                        lines.fetch_add(1, Ordering::Relaxed);
                        let si = match succs.iter().position(|s| boards_equal(s, &run.sent[j])) {
                            Some(x) => x,
                            None => continue, // C03's oracle
                        };
                        if info_score(&infos[j]) != shown_score(vals[si]) {
                            rep.fail("C12", &format!("value-of-move-differs/iteration-{}", d), format!("{}: iteration {} reports '{}' for its first move, plain minimax gives {} for that move", root.name, d, infos[j].raw, vals[si]), c12_case(root, d, &infos[j].raw));
                        }
                    }
                    let last = *at_depth.last().unwrap();
                    if info_score(&infos[last]) != shown_score(best) {
                        let sig = if root.table.table.values().any(|c| *c >= 3) { format!("final-value-differs/iteration-{}/history-holds-a-threefold-position", d) } else { format!("final-value-differs/iteration-{}", d) };
                        rep.fail("C12", &sig, format!("{}: iteration {} ends with '{}', the exact minimax value is {} (shown as {:?})", root.name, d, infos[last].raw, best, shown_score(best)), c12_case(root, d, &infos[last].raw));
                    }
                }
                if capped {
                    skipped.fetch_add(1, Ordering::Relaxed);
                } else {
                    searched.fetch_add(1, Ordering::Relaxed);
                    if i % 4001 == 0 {
                        rep.sample(J::obj().set("root", J::s(&root.command)).set("iterations", J::Int(max_d as i128)).set("info_lines", J::strs(&run.infos.iter().map(|l| strip_time(l)).collect::<Vec<_>>())));
                    }
                }
            });
        }
    });
    let coverage_runs = chain_depth_coverage(rep, &h) + check_extension_coverage(rep, &h);
    rep.add("reference_runs_measuring_capture_chain_coverage", coverage_runs);
    rep.add("positions_compared", searched.load(Ordering::Relaxed));
    rep.add("positions_skipped_by_reference_node_cap", skipped.load(Ordering::Relaxed));
    rep.add("reference_nodes", ref_nodes.load(Ordering::Relaxed));
    rep.add("info_lines_compared", lines.load(Ordering::Relaxed));
    rep.add("roots_with_game_history", with_history.load(Ordering::Relaxed));
    rep.add("iterations_decided_by_the_alpha_beta_reference", ab_used.load(Ordering::Relaxed));
    rep.add("iterations_where_alpha_beta_reference_was_cross_checked_against_plain_negamax", ab_crosschecked.load(Ordering::Relaxed));
    rep.add("iterations_where_some_root_move_is_worth_exactly_zero", draws_by_repetition.load(Ordering::Relaxed));
    rep.assume("the reference (harness/src/refsearch.rs) is plain full-window negamax over the engine's own generator, evaluation and check test with check extension, capture quiescence, mate and repetition (>= 2 earlier occurrences) as the only leaf rules");
    if skipped.load(Ordering::Relaxed) > 0 {
        rep.note(format!("{} positions skipped because the unpruned reference exceeded {} nodes (not counted as explored)", skipped.load(Ordering::Relaxed), node_cap));
    }
    let rule = "every root of: KQK/KRK complete families on a stride, the complete K+P v K family with the pawn one or two steps from promotion (both colours, both sides to move), the positions of the castling / en-passant / promotion families in which such a move gives check (on a stride), all move paths of length <= 2/3 from the low-material S1 roots (history preloaded through the real position command), the C07 roots, constructed repetition histories, the two-tower exchange position (one square attacked and defended eight times, one three times) with every set of <= 1/3 participants removed, dense 32-man roots whose value depends on captures up to 23 plies below the horizon (re-measured, see capture_chain_depth_coverage), queen-heavy roots whose value depends on check extensions up to ply 11 (see check_extension_depth_coverage), games ending in a cross-check there-and-back whose value depends on the repetition record near the horizon, 20 roots whose value depends on capture-promotions far below alpha; iterations 1..3 (1..2 above 10 pieces, 1 above 20); each reported (move, score) and each iteration's final score compared with plain negamax";
    rep.finish(searched.load(Ordering::Relaxed), ref_nodes.load(Ordering::Relaxed), lines.load(Ordering::Relaxed), skipped.load(Ordering::Relaxed) == 0, rule)
}


/// Development aid (`wmc chainfind <count> <min_depth>`): deterministic dense scrambles of the full set of men,
/// with the number of capture plies below the horizon that the depth-1 value depends on (the largest N for
/// which a reference cut after N capture plies gives another value than the reference itself).
pub fn chainfind(count: usize, min_d: u32) {
    let h = ZobristHasher::create_zobrist_hasher();
    let found = std::sync::Mutex::new(Vec::<(u32, String)>::new());
    let idx = AtomicUsize::new(0);
    std::thread::scope(|s| {
        for _ in 0..threads() {
            s.spawn(|| loop {
                let i = idx.fetch_add(1, Ordering::Relaxed);
                if i >= count {
                    break;
                }
                let mut x: u64 = 0x9E3779B97F4A7C15u64.wrapping_mul(i as u64 + 1);
                let mut next = || {
                    x ^= x << 13;
                    x ^= x >> 7;
                    x ^= x << 17;
                    x
                };
                let men: Vec<u8> = {
                    let mut v = Vec::new();
                    for c in [rules::WHITE, rules::BLACK] {
                        v.push(rules::pc(c, rules::K));
                        v.push(rules::pc(c, rules::Q));
                        for k in [rules::R, rules::B, rules::N] {
                            v.push(rules::pc(c, k));
                            v.push(rules::pc(c, k));
                        }
                        for _ in 0..8 {
                            v.push(rules::pc(c, rules::P));
                        }
                    }
                    v
                };
                let mut p = Pos::empty();
                let mut ok = true;
                for &m in &men {
                    let mut tries = 0;
                    loop {
                        let sq = (next() % 64) as u8;
                        tries += 1;
                        if tries > 200 {
                            ok = false;
                            break;
                        }
                        if p.b[sq as usize] != rules::EMPTY {
                            continue;
                        }
                        if rules::kind_of(m) == rules::P && (rules::rank_of(sq) == 0 || rules::rank_of(sq) == 7) {
                            continue;
                        }
                        p.b[sq as usize] = m;
                        break;
                    }
                }
                if !ok {
                    continue;
                }
                p.stm = if next() % 2 == 0 { rules::WHITE } else { rules::BLACK };
                if !p.is_legal_position() || p.legal_moves().is_empty() || p.in_check(p.stm) {
                    continue;
                }
                let root = fresh_root(&p, &h);
                let succs = crate::move_generation::generate_moves(&root.board, crate::move_generation::MoveGenerationMode::AllMoves, &h);
                let value = |qcap: u32| -> Option<(i32, u32)> {
                    let mut r = Ref::new(&h, 20_000_000);
                    r.qcap = qcap;
                    let mut table = root.table.clone();
                    let mut best = i32::MIN;
                    for c in &succs {
                        let v = -r.alphabeta(c, 0, 1, -10_000_000, 10_000_000, &mut table);
                        if r.capped {
                            return None;
                        }
                        best = best.max(v);
                    }
                    Some((best, r.max_qply))
                };
                let (exact, deepest) = match value(u32::MAX) {
                    Some(v) => v,
                    None => continue,
                };
                if deepest < min_d {
                    continue;
                }
                // filter: a cut at min_d itself must already change the value
                match value(min_d) {
                    Some((v, _)) if v != exact => {}
                    _ => continue,
                }
                let mut d = 0;
                let mut n = deepest;
                while n >= min_d {
                    match value(n) {
                        Some((v, _)) if v != exact => {
                            d = n;
                            break;
                        }
                        _ => {}
                    }
                    n -= 1;
                }
                if d >= min_d {
                    found.lock().unwrap().push((d, p.fen()));
                }
            });
        }
    });
    let mut v = found.into_inner().unwrap();
    v.sort();
    for (d, f) in v {
        println!("{} {}", d, f);
    }
}


/// Development aid (`wmc checkchainfind <count> <min_ply>`): deterministic queen-heavy scrambles with open
/// kings; prints those whose depth-1 or depth-2 value changes when the reference stops extending checks at
/// `min_ply`, with the deepest ply at which an extension happened.
pub fn checkchainfind(count: usize, min_ply: i32) {
    let h = ZobristHasher::create_zobrist_hasher();
    let found = std::sync::Mutex::new(Vec::<(i32, u8, String)>::new());
    let idx = AtomicUsize::new(0);
    std::thread::scope(|s| {
        for _ in 0..threads() {
            s.spawn(|| loop {
                let i = idx.fetch_add(1, Ordering::Relaxed);
                if i >= count {
                    break;
                }
                let mut x: u64 = 0xD1B54A32D192ED03u64.wrapping_mul(i as u64 + 1) ^ 0x9E3779B97F4A7C15;
                let mut next = || {
                    x ^= x << 13;
                    x ^= x >> 7;
                    x ^= x << 17;
                    x
                };
                let mut men: Vec<u8> = Vec::new();
                for c in [rules::WHITE, rules::BLACK] {
                    men.push(rules::pc(c, rules::K));
                    let q = 3 + (next() % 3) as usize;
                    for _ in 0..q {
                        men.push(rules::pc(c, rules::Q));
                    }
                    for _ in 0..(next() % 3) {
                        men.push(rules::pc(c, if next() % 2 == 0 { rules::R } else { rules::B }));
                    }
                }
                let mut p = Pos::empty();
                for &m in &men {
                    loop {
                        let sq = (next() % 64) as u8;
                        if p.b[sq as usize] == rules::EMPTY {
                            p.b[sq as usize] = m;
                            break;
                        }
                    }
                }
                p.stm = if next() % 2 == 0 { rules::WHITE } else { rules::BLACK };
                if !p.is_legal_position() || p.legal_moves().is_empty() {
                    continue;
                }
                let root = fresh_root(&p, &h);
                let succs = crate::move_generation::generate_moves(&root.board, crate::move_generation::MoveGenerationMode::AllMoves, &h);
                if min_ply < 0 {
                    // other mode: a quiet mate in one next to a capture that mates in two through checks only
                    let mut r = Ref::new(&h, 3_000_000);
                    let mut table = root.table.clone();
                    let vals: Vec<i32> = succs.iter().map(|c| -r.alphabeta(c, 0, 1, -10_000_000, 10_000_000, &mut table)).collect();
                    if r.capped {
                        continue;
                    }
                    let legal = p.legal_moves();
                    let quiet_mate1 = succs.iter().zip(vals.iter()).any(|(c, v)| *v == crate::refsearch::MATE_SCORE - 1 && move_of_successor(&p, c).map(|m| !p.is_capture(&m)).unwrap_or(false));
                    let capture_mate2 = succs.iter().zip(vals.iter()).any(|(c, v)| *v == crate::refsearch::MATE_SCORE - 3 && move_of_successor(&p, c).map(|m| p.is_capture(&m)).unwrap_or(false));
                    let _ = legal;
                    if quiet_mate1 && capture_mate2 {
                        found.lock().unwrap().push((0, 1, p.fen()));
                    }
                    continue;
                }
                for d in [1u8, 2] {
                    let value = |xcap: i32| -> Option<(i32, i32)> {
                        let mut r = Ref::new(&h, 3_000_000);
                        r.xcap = xcap;
                        let mut table = root.table.clone();
                        let mut best = i32::MIN;
                        for c in &succs {
                            let v = -r.alphabeta(c, d - 1, 1, -10_000_000, 10_000_000, &mut table);
                            if r.capped {
                                return None;
                            }
                            best = best.max(v);
                        }
                        Some((best, r.max_ext_ply))
                    };
                    let (exact, deepest) = match value(i32::MAX) {
                        Some(v) => v,
                        None => break,
                    };
                    if deepest < min_ply {
                        continue;
                    }
                    if let Some((v, _)) = value(min_ply) {
                        if v != exact {
                            found.lock().unwrap().push((deepest, d, p.fen()));
                            break;
                        }
                    }
                }
            });
        }
    });
    let mut v = found.into_inner().unwrap();
    v.sort();
    for (deepest, d, f) in v {
        println!("{} {} {}", deepest, d, f);
    }
}


/// Development aid (`wmc crosscheckfind <count>`): deterministic scrambles of two kings and up to eight
/// queens/rooks/bishops/knights; every there-and-back game  m1, m2+, m1^-1+  in which the reply gives check
/// and the retreat answers it with a check of its own (a cross-check cycle that the search can run through
/// again below its horizon). Prints the position commands whose depth-3 value changes when the reference
/// leaves nodes with less than three plies of remaining depth off the repetition record.
pub fn crosscheckfind(count: usize) {
    let h = ZobristHasher::create_zobrist_hasher();
    let found = std::sync::Mutex::new(Vec::<String>::new());
    let shapes = AtomicU64::new(0);
    let idx = AtomicUsize::new(0);
    std::thread::scope(|s| {
        for _ in 0..threads() {
            s.spawn(|| loop {
                let i = idx.fetch_add(1, Ordering::Relaxed);
                if i >= count {
                    break;
                }
                let mut x: u64 = 0xA0761D6478BD642Fu64.wrapping_mul(i as u64 + 1) ^ 0xE7037ED1A0B428DB;
                let mut next = || {
                    x ^= x << 13;
                    x ^= x >> 7;
                    x ^= x << 17;
                    x
                };
                let mut p = Pos::empty();
                let kinds = [rules::Q, rules::R, rules::B, rules::N, rules::R, rules::B];
                let mut men: Vec<u8> = vec![rules::pc(rules::WHITE, rules::K), rules::pc(rules::BLACK, rules::K)];
                for c in [rules::WHITE, rules::BLACK] {
                    for _ in 0..(2 + next() % 3) {
                        men.push(rules::pc(c, kinds[(next() % 6) as usize]));
                    }
                }
                for &m in &men {
                    loop {
                        let sq = (next() % 64) as u8;
                        if p.b[sq as usize] == rules::EMPTY {
                            p.b[sq as usize] = m;
                            break;
                        }
                    }
                }
                p.stm = if next() % 2 == 0 { rules::WHITE } else { rules::BLACK };
                if !p.is_legal_position() || p.in_check(p.stm) {
                    continue;
                }
                for m1 in p.legal_moves() {
                    if p.is_capture(&m1) || m1.promo != 0 {
                        continue;
                    }
                    let g1 = p.make(&m1);
                    for m2 in g1.legal_moves() {
                        if g1.is_capture(&m2) || m2.promo != 0 {
                            continue;
                        }
                        let g2 = g1.make(&m2);
                        if !g2.in_check(g2.stm) {
                            continue; // the reply must give check
                        }
                        let back = Mv { from: m1.to, to: m1.from, promo: 0 };
                        if !g2.legal_moves().contains(&back) {
                            continue;
                        }
                        let g3 = g2.make(&back);
                        if !g3.in_check(g3.stm) {
                            continue; // the retreat must give check itself
                        }
                        let back2 = Mv { from: m2.to, to: m2.from, promo: 0 };
                        if !g3.legal_moves().contains(&back2) {
                            continue;
                        }
                        shapes.fetch_add(1, Ordering::Relaxed);
                        let cmd = format!("position fen {} moves {} {} {}", p.fen(), m1.uci(), m2.uci(), back.uci());
                        let root = root_from_command(&cmd, &h);
                        let succs = crate::move_generation::generate_moves(&root.board, crate::move_generation::MoveGenerationMode::AllMoves, &h);
                        let value = |min_depth: u8| -> Option<i32> {
                            let mut r = Ref::new(&h, 5_000_000);
                            r.record_min_depth = min_depth;
                            let mut table = root.table.clone();
                            let mut best = i32::MIN;
                            for c in &succs {
                                let v = -r.alphabeta(c, 2, 1, -10_000_000, 10_000_000, &mut table);
                                if r.capped {
                                    return None;
                                }
                                best = best.max(v);
                            }
                            Some(best)
                        };
                        if let (Some(a), Some(b)) = (value(0), value(3)) {
                            if a != b {
                                found.lock().unwrap().push(format!("{} {} | {}", a, b, cmd));
                            }
                        }
                    }
                }
            });
        }
    });
    let v = found.into_inner().unwrap();
    for l in &v {
        println!("{}", l);
    }
    eprintln!("{} cross-check there-and-back games, {} of them sensitive", shapes.load(Ordering::Relaxed), v.len());
}


/// Development aid (`wmc deltafind <count>`): deterministic scrambles with pawns one step from promotion next
/// to heavy pieces on the last rank; prints those whose depth-1 or depth-2 value changes when the reference's
/// capture search skips nodes whose static value is more than 1500 below alpha (a capture that promotes gains
/// more than that).
pub fn deltafind(count: usize) {
    let h = ZobristHasher::create_zobrist_hasher();
    let found = std::sync::Mutex::new(Vec::<(u8, String)>::new());
    let idx = AtomicUsize::new(0);
    std::thread::scope(|s| {
        for _ in 0..threads() {
            s.spawn(|| loop {
                let i = idx.fetch_add(1, Ordering::Relaxed);
                if i >= count {
                    break;
                }
                let mut x: u64 = 0x8EBC6AF09C88C6E3u64.wrapping_mul(i as u64 + 1) ^ 0x589965CC75374CC3;
                let mut next = || {
                    x ^= x << 13;
                    x ^= x >> 7;
                    x ^= x << 17;
                    x
                };
                let mut p = Pos::empty();
                let put = |p: &mut Pos, piece: u8, ranks: std::ops::Range<i8>, next: &mut dyn FnMut() -> u64| {
                    for _ in 0..50 {
                        let f = (next() % 8) as i8;
                        let r = ranks.start + (next() % (ranks.end - ranks.start) as u64) as i8;
                        let sq = rules::sq_at(f, r).unwrap();
                        if p.b[sq as usize] == rules::EMPTY {
                            p.b[sq as usize] = piece;
                            return;
                        }
                    }
                };
                put(&mut p, rules::pc(rules::WHITE, rules::K), 0..8, &mut next);
                put(&mut p, rules::pc(rules::BLACK, rules::K), 0..8, &mut next);
                for c in [rules::WHITE, rules::BLACK] {
                    for _ in 0..(1 + next() % 3) {
                        put(&mut p, rules::pc(c, rules::Q), 0..8, &mut next);
                    }
                    for _ in 0..(next() % 3) {
                        let k = if next() % 2 == 0 { rules::R } else { rules::B };
                        put(&mut p, rules::pc(c, k), 0..8, &mut next);
                    }
                    // pawns one step from promotion, heavy enemy pieces tend to stand on the last rank
                    let (pr, lr) = if c == rules::WHITE { (6i8, 7i8) } else { (1i8, 0i8) };
                    for _ in 0..(1 + next() % 2) {
                        put(&mut p, rules::pc(c, rules::P), pr..pr + 1, &mut next);
                    }
                    for _ in 0..(next() % 3) {
                        let k = if next() % 2 == 0 { rules::Q } else { rules::R };
                        put(&mut p, rules::pc(c ^ 1, k), lr..lr + 1, &mut next);
                    }
                }
                p.stm = if next() % 2 == 0 { rules::WHITE } else { rules::BLACK };
                if !p.is_legal_position() || p.legal_moves().is_empty() {
                    continue;
                }
                let root = fresh_root(&p, &h);
                let succs = crate::move_generation::generate_moves(&root.board, crate::move_generation::MoveGenerationMode::AllMoves, &h);
                for d in [1u8, 2] {
                    let value = |delta: Option<i32>| -> Option<i32> {
                        let mut r = Ref::new(&h, 2_000_000);
                        r.qdelta = delta;
                        let mut table = root.table.clone();
                        // one window for all root moves, as a search does it: alpha rises from sibling to sibling
                        let mut alpha = -10_000_000;
                        for c in &succs {
                            let v = -r.alphabeta(c, d - 1, 1, -10_000_000, -alpha, &mut table);
                            if r.capped {
                                return None;
                            }
                            alpha = alpha.max(v);
                        }
                        Some(alpha)
                    };
                    if let (Some(a), Some(b)) = (value(None), value(Some(1500))) {
                        if a != b {
                            found.lock().unwrap().push((d, p.fen()));
                            break;
                        }
                    }
                }
            });
        }
    });
    let mut v = found.into_inner().unwrap();
    v.sort();
    for (d, f) in v {
        println!("{} {}", d, f);
    }
}

//! Conversions between the engine's BoardState and the oracle's Pos, scratch hash, canonical keys.
#![allow(dead_code)]
use crate::board::{BoardState, Piece, PieceColor, PieceKind, Point, Square, BOARD_END, BOARD_START};
use crate::move_generation::CastlingType;
use crate::rules::{self, Mv, Pos};
use crate::zobrist::ZobristHasher;

pub fn point_of_sq(sq: u8) -> Point {
    Point(9 - (sq as usize >> 3), (sq as usize & 7) + 2)
}

pub fn sq_of_point(p: &Point) -> Option<u8> {
    if (BOARD_START..BOARD_END).contains(&p.0) && (BOARD_START..BOARD_END).contains(&p.1) {
        Some(((9 - p.0) * 8 + (p.1 - 2)) as u8)
    } else {
        None
    }
}

pub fn engine_piece(p: u8) -> Piece {
    let kind = match rules::kind_of(p) {
        rules::P => PieceKind::Pawn,
        rules::N => PieceKind::Knight,
        rules::B => PieceKind::Bishop,
        rules::R => PieceKind::Rook,
        rules::Q => PieceKind::Queen,
        _ => PieceKind::King,
    };
    Piece { color: if rules::color_of(p) == rules::WHITE { PieceColor::White } else { PieceColor::Black }, kind }
}

pub fn oracle_kind(k: PieceKind) -> u8 {
    match k {
        PieceKind::Pawn => rules::P,
        PieceKind::Knight => rules::N,
        PieceKind::Bishop => rules::B,
        PieceKind::Rook => rules::R,
        PieceKind::Queen => rules::Q,
        PieceKind::King => rules::K,
    }
}

pub fn oracle_piece(p: Piece) -> u8 {
    rules::pc(if p.color == PieceColor::White { rules::WHITE } else { rules::BLACK }, oracle_kind(p.kind))
}

/// Read the position an engine board describes (placement, side, rights, ep target). None if a square
/// inside the 8x8 area is a Boundary or the ep target lies outside the board.
pub fn pos_of_board(b: &BoardState) -> Option<Pos> {
    let mut pos = Pos::empty();
    for sq in 0..64u8 {
        let pt = point_of_sq(sq);
        pos.b[sq as usize] = match b.board[pt.0][pt.1] {
            Square::Empty => rules::EMPTY,
            Square::Full(p) => oracle_piece(p),
            Square::Boundary => return None,
        };
    }
    pos.stm = if b.to_move == PieceColor::White { rules::WHITE } else { rules::BLACK };
    if b.white_king_side_castle {
        pos.rights |= rules::WK;
    }
    if b.white_queen_side_castle {
        pos.rights |= rules::WQ;
    }
    if b.black_king_side_castle {
        pos.rights |= rules::BK;
    }
    if b.black_queen_side_castle {
        pos.rights |= rules::BQ;
    }
    pos.ep = match &b.pawn_double_move {
        None => None,
        Some(p) => Some(sq_of_point(p)?),
    };
    Some(pos)
}

/// the 80 sentinel squares are all Boundary
pub fn ring_ok(b: &BoardState) -> bool {
    for i in 0..12 {
        for j in 0..12 {
            let inside = (BOARD_START..BOARD_END).contains(&i) && (BOARD_START..BOARD_END).contains(&j);
            if !inside && b.board[i][j] != Square::Boundary {
                return false;
            }
        }
    }
    true
}

/// cached king squares equal the real king squares (for a position with one king each)
pub fn king_cache_ok(b: &BoardState, pos: &Pos) -> bool {
    let w = pos.king_sq(rules::WHITE).map(point_of_sq);
    let k = pos.king_sq(rules::BLACK).map(point_of_sq);
    w == Some(b.white_king_location) && k == Some(b.black_king_location)
}

/// Key computed from scratch through the public getters of the hasher
pub fn scratch_key(pos: &Pos, h: &ZobristHasher) -> u64 {
    let mut key = 0u64;
    for sq in 0..64u8 {
        let p = pos.b[sq as usize];
        if p != rules::EMPTY {
            key ^= h.get_val_for_piece(engine_piece(p), point_of_sq(sq));
        }
    }
    if pos.stm == rules::BLACK {
        key ^= h.get_black_to_move_val();
    }
    if pos.rights & rules::WK != 0 {
        key ^= h.get_val_for_castling(CastlingType::WhiteKingSide);
    }
    if pos.rights & rules::WQ != 0 {
        key ^= h.get_val_for_castling(CastlingType::WhiteQueenSide);
    }
    if pos.rights & rules::BK != 0 {
        key ^= h.get_val_for_castling(CastlingType::BlackKingSide);
    }
    if pos.rights & rules::BQ != 0 {
        key ^= h.get_val_for_castling(CastlingType::BlackQueenSide);
    }
    if let Some(ep) = pos.ep {
        key ^= h.get_val_for_en_passant(point_of_sq(ep).1);
    }
    key
}

/// An engine board for a position, built by the engine's own FEN loader (so that every field the engine
/// keeps — including ones this harness does not know about — is what the engine itself would set).
/// Falls back to direct construction when the loader refuses the FEN (reported elsewhere as C15).
pub fn board_of_pos(pos: &Pos, h: &ZobristHasher) -> BoardState {
    match std::panic::catch_unwind(|| BoardState::from_fen(&pos.fen()).ok()) {
        Ok(Some(b)) => b,
        _ => board_direct(pos, h),
    }
}

thread_local! {
    static TEMPLATE: std::cell::RefCell<Option<BoardState>> = const { std::cell::RefCell::new(None) };
}

/// Build an engine board directly (all known fields are public), with the king cache set as the FEN loader
/// sets it and the key computed from scratch. No struct literal: a field added to BoardState later keeps
/// the value the loader gives it on an empty board. Used for bulk enumerations and for placements no FEN
/// loader needs to accept.
pub fn board_direct(pos: &Pos, h: &ZobristHasher) -> BoardState {
    let mut b = TEMPLATE.with(|t| {
        let mut t = t.borrow_mut();
        if t.is_none() {
            *t = Some(BoardState::from_fen("8/8/8/8/8/8/8/8 w - - 0 1").unwrap_or_else(|e| {
                eprintln!("MACHINERY-ERROR: the FEN loader rejects the empty board: {}", e);
                std::process::exit(2)
            }));
        }
        t.as_ref().unwrap().clone()
    });
    let mut wk = Point(0, 0);
    let mut bk = Point(0, 0);
    for sq in 0..64u8 {
        let pt = point_of_sq(sq);
        let p = pos.b[sq as usize];
        b.board[pt.0][pt.1] = if p == rules::EMPTY { Square::Empty } else { Square::Full(engine_piece(p)) };
        if p == rules::pc(rules::WHITE, rules::K) {
            wk = pt;
        }
        if p == rules::pc(rules::BLACK, rules::K) {
            bk = pt;
        }
    }
    b.to_move = if pos.stm == rules::WHITE { PieceColor::White } else { PieceColor::Black };
    b.pawn_double_move = pos.ep.map(point_of_sq);
    b.white_king_location = wk;
    b.black_king_location = bk;
    b.white_king_side_castle = pos.rights & rules::WK != 0;
    b.white_queen_side_castle = pos.rights & rules::WQ != 0;
    b.black_king_side_castle = pos.rights & rules::BK != 0;
    b.black_queen_side_castle = pos.rights & rules::BQ != 0;
    b.order_heuristic = 0;
    b.last_move = None;
    b.pawn_promotion = None;
    b.zobrist_key = scratch_key(pos, h);
    b
}

/// (from, to) of the descriptor a successor carries
pub fn last_move_sq(b: &BoardState) -> Option<(u8, u8)> {
    let (f, t) = b.last_move.as_ref()?;
    Some((sq_of_point(f)?, sq_of_point(t)?))
}

/// The move a successor object stands for, identified from its descriptor squares and from what
/// really happened on the board (promotion piece = what stands on the target square when a pawn of
/// the parent reached the last rank).
pub fn move_of_successor(parent: &Pos, child: &BoardState) -> Option<Mv> {
    let (from, to) = last_move_sq(child)?;
    let mover = parent.b[from as usize];
    let mut promo = 0;
    if rules::kind_of(mover) == rules::P && (rules::rank_of(to) == 7 || rules::rank_of(to) == 0) {
        let pt = point_of_sq(to);
        if let Square::Full(p) = child.board[pt.0][pt.1] {
            let k = oracle_kind(p.kind);
            if k != rules::P {
                promo = k;
            }
        }
    }
    Some(Mv { from, to, promo })
}

/// Describe the differences between an engine board and the position it should hold
pub fn diff_board(b: &BoardState, want: &Pos) -> Option<String> {
    let got = match pos_of_board(b) {
        Some(p) => p,
        None => return Some("board has a Boundary inside the 8x8 area or an off-board ep target".into()),
    };
    let mut d = Vec::new();
    if got.b != want.b {
        for sq in 0..64u8 {
            if got.b[sq as usize] != want.b[sq as usize] {
                d.push(format!(
                    "{}: engine '{}' rules '{}'",
                    rules::sq_name(sq),
                    if got.b[sq as usize] == 0 { '.' } else { rules::piece_char(got.b[sq as usize]) },
                    if want.b[sq as usize] == 0 { '.' } else { rules::piece_char(want.b[sq as usize]) }
                ));
            }
        }
    }
    if got.stm != want.stm {
        d.push("side to move differs".to_string());
    }
    if got.rights != want.rights {
        d.push(format!("castling rights engine {:04b} rules {:04b} (bits qkQK)", got.rights, want.rights));
    }
    if got.ep != want.ep {
        d.push(format!(
            "en-passant target engine {} rules {}",
            got.ep.map(rules::sq_name).unwrap_or("-".into()),
            want.ep.map(rules::sq_name).unwrap_or("-".into())
        ));
    }
    if !ring_ok(b) {
        d.push("sentinel ring damaged".to_string());
    }
    if want.count(rules::pc(rules::WHITE, rules::K)) == 1
        && want.count(rules::pc(rules::BLACK, rules::K)) == 1
        && !king_cache_ok(b, want)
    {
        d.push(format!(
            "king cache wk={:?} bk={:?} but kings stand on {} / {}",
            b.white_king_location,
            b.black_king_location,
            want.king_sq(rules::WHITE).map(rules::sq_name).unwrap_or_default(),
            want.king_sq(rules::BLACK).map(rules::sq_name).unwrap_or_default()
        ));
    }
    if d.is_empty() {
        None
    } else {
        Some(d.join("; "))
    }
}

/// 128-bit fingerprint of a canonical state (two independently keyed FNV-style hashes)
pub fn fingerprint(pos: &Pos, extra: u32) -> u128 {
    let mut h1: u64 = 0xcbf29ce484222325;
    let mut h2: u64 = 0x9e3779b97f4a7c15;
    let mut feed = |byte: u8| {
        h1 = (h1 ^ byte as u64).wrapping_mul(0x100000001b3);
        h2 = (h2.rotate_left(5) ^ (byte as u64).wrapping_mul(0xff51afd7ed558ccd)).wrapping_mul(0xc4ceb9fe1a85ec53);
        h2 ^= h2 >> 29;
    };
    for &x in pos.b.iter() {
        feed(x);
    }
    feed(pos.stm);
    feed(pos.rights);
    feed(pos.ep.map(|e| e + 1).unwrap_or(0));
    for b in extra.to_le_bytes() {
        feed(b);
    }
    ((h1 as u128) << 64) | h2 as u128
}

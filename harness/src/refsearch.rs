//! Plain negamax reference for C12: full window, no ordering, no pruning, over the engine's OWN
//! generate_moves / get_evaluation / is_check (C12 is about the search, not the rules).
#![allow(dead_code)]
use crate::board::BoardState;
use crate::draw_table::DrawTable;
use crate::evaluation::get_evaluation;
use crate::move_generation::{generate_moves, is_check, MoveGenerationMode};
use crate::zobrist::ZobristHasher;

pub const MATE_SCORE: i32 = 100000;

pub struct Ref<'a> {
    pub h: &'a ZobristHasher,
    pub nodes: u64,
    pub cap: u64,
    pub capped: bool,
    /// measuring aid only: capture extension cut after this many plies (u32::MAX = the reference itself)
    pub qcap: u32,
    pub max_qply: u32,
    /// measuring aid only: no check extension at or beyond this ply (i32::MAX = the reference itself)
    pub xcap: i32,
    pub max_ext_ply: i32,
    /// measuring aid only: nodes with less remaining depth than this are not put on the repetition record
    pub record_min_depth: u8,
    /// measuring aid only: "delta pruning" in the capture search (a node whose static value plus this margin
    /// stays below alpha is not searched)
    pub qdelta: Option<i32>,
}

impl<'a> Ref<'a> {
    pub fn new(h: &'a ZobristHasher, cap: u64) -> Ref<'a> {
        Ref { h, nodes: 0, cap, capped: false, qcap: u32::MAX, max_qply: 0, xcap: i32::MAX, max_ext_ply: 0, record_min_depth: 0, qdelta: None }
    }

    fn quiesce(&mut self, board: &BoardState) -> i32 {
        self.nodes += 1;
        if self.nodes > self.cap {
            self.capped = true;
            return 0;
        }
        let mut best = get_evaluation(board);
        for m in generate_moves(board, MoveGenerationMode::CapturesOnly, self.h) {
            let v = -self.quiesce(&m);
            if v > best {
                best = v;
            }
            if self.capped {
                return 0;
            }
        }
        best
    }

    /// value of `board` for the side to move, `depth` plies of full-width search below it
    pub fn negamax(&mut self, board: &BoardState, mut depth: u8, ply: i32, table: &mut DrawTable) -> i32 {
        self.nodes += 1;
        if self.nodes > self.cap {
            self.capped = true;
            return 0;
        }
        // a position that has already occurred at least twice (game + current line) is a draw
        let count = *table.table.get(&board.zobrist_key).unwrap_or(&0);
        if count >= 2 {
            return 0;
        }
        table.add_board_to_draw_table(board);
        if depth == 0 {
            if is_check(board, board.to_move) {
                depth = 1;
            } else {
                table.remove_board_from_draw_table(board);
                return self.quiesce(board);
            }
        }
        let moves = generate_moves(board, MoveGenerationMode::AllMoves, self.h);
        let v = if moves.is_empty() {
            if is_check(board, board.to_move) {
                -(MATE_SCORE - ply)
            } else {
                0
            }
        } else {
            let mut best = i32::MIN;
            for m in &moves {
                let v = -self.negamax(m, depth - 1, ply + 1, table);
                if v > best {
                    best = v;
                }
                if self.capped {
                    break;
                }
            }
            best
        };
        table.remove_board_from_draw_table(board);
        v
    }
}

impl<'a> Ref<'a> {
    fn quiesce_ab(&mut self, board: &BoardState, alpha: i32, beta: i32) -> i32 {
        self.quiesce_ab_at(board, alpha, beta, 0)
    }

    fn quiesce_ab_at(&mut self, board: &BoardState, mut alpha: i32, beta: i32, qply: u32) -> i32 {
        self.nodes += 1;
        if qply > self.max_qply {
            self.max_qply = qply;
        }
        if self.nodes > self.cap {
            self.capped = true;
            return 0;
        }
        let mut best = get_evaluation(board);
        if best >= beta {
            return best;
        }
        if best > alpha {
            alpha = best;
        }
        if qply >= self.qcap {
            return best;
        }
        if let Some(d) = self.qdelta {
            if best + d < alpha {
                return alpha;
            }
        }
        // ordering (captures of the most valuable piece first) changes the work, never the value
        let mut caps = generate_moves(board, MoveGenerationMode::CapturesOnly, self.h);
        caps.sort_by_key(|k| std::cmp::Reverse(k.order_heuristic));
        for m in caps {
            let v = -self.quiesce_ab_at(&m, -beta, -alpha, qply + 1);
            if self.capped {
                return 0;
            }
            if v > best {
                best = v;
                if v >= beta {
                    return best;
                }
                if v > alpha {
                    alpha = v;
                }
            }
        }
        best
    }

    /// Textbook fail-soft alpha-beta (no ordering, no other pruning): returns the exact minimax value
    /// whenever it lies inside (alpha, beta). Used where the unpruned reference is too large; it is
    /// cross-checked against `negamax` on every position where both finish.
    pub fn alphabeta(&mut self, board: &BoardState, mut depth: u8, ply: i32, mut alpha: i32, beta: i32, table: &mut DrawTable) -> i32 {
        self.nodes += 1;
        if self.nodes > self.cap {
            self.capped = true;
            return 0;
        }
        let count = *table.table.get(&board.zobrist_key).unwrap_or(&0);
        if count >= 2 {
            return 0;
        }
        if depth == 0 {
            if ply < self.xcap && is_check(board, board.to_move) {
                depth = 1;
                if ply > self.max_ext_ply {
                    self.max_ext_ply = ply;
                }
            } else {
                return self.quiesce_ab(board, alpha, beta);
            }
        }
        let on_record = depth >= self.record_min_depth;
        if on_record {
            table.add_board_to_draw_table(board);
        }
        let mut moves = generate_moves(board, MoveGenerationMode::AllMoves, self.h);
        moves.sort_by_key(|k| std::cmp::Reverse(k.order_heuristic));
        let v = if moves.is_empty() {
            if is_check(board, board.to_move) {
                -(MATE_SCORE - ply)
            } else {
                0
            }
        } else {
            let mut best = i32::MIN + 1;
            for m in &moves {
                let v = -self.alphabeta(m, depth - 1, ply + 1, -beta, -alpha, table);
                if self.capped {
                    break;
                }
                if v > best {
                    best = v;
                    if v >= beta {
                        break;
                    }
                    if v > alpha {
                        alpha = v;
                    }
                }
            }
            best
        };
        if on_record {
            table.remove_board_from_draw_table(board);
        }
        v
    }
}

/// the (kind, number) an info line shows for a raw value
pub fn shown_score(v: i32) -> (bool, i64) {
    let w = 15;
    if v >= MATE_SCORE - w {
        (true, ((MATE_SCORE - v + 1) / 2) as i64)
    } else if v <= -MATE_SCORE + w {
        (true, ((MATE_SCORE + v) / -2) as i64)
    } else {
        (false, v as i64)
    }
}

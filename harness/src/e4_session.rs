//! E4 — breadth-first search of the UCI session state machine; every transition is executed by the
//! real binary (hooks on: virtual clock by environment, loop state dumped on stderr). Serves C16, C17,
//! and the session parts of C03, C08, C10, C15.
#![allow(dead_code)]
use crate::json::J;
use crate::report::Report;
use crate::rules::{self, Mv, Pos};
use std::collections::{BTreeMap, BTreeSet, HashMap, VecDeque};
use std::io::{Read, Write};
use std::process::{Command, Stdio};
use std::sync::atomic::{AtomicU64, AtomicUsize, Ordering};
use std::sync::Mutex;
use std::time::{Duration, Instant};

pub const BIN_ON: &str = "/verif/target/repo-hooks-on/release/walleye";
pub const BIN_OFF: &str = "/verif/target/repo-hooks-off/release/walleye";

pub fn threads() -> usize {
    std::thread::available_parallelism().map(|n| n.get()).unwrap_or(8).min(16)
}

#[derive(Clone, Debug, Default)]
pub struct Outcome {
    pub stdout: Vec<String>,
    pub states: Vec<String>,   // VERIF-STATE lines (one per handled command), cmd part removed
    pub state_cmds: Vec<String>,
    pub searches: Vec<String>, // VERIF-SEARCH lines
    pub exit_code: Option<i32>,
    pub timed_out: bool,
    pub wall_ms: u128,
    pub stdout_times_ms: Vec<u128>,
}

static SCRATCH_ID: AtomicU64 = AtomicU64::new(0);
/// sessions that had to be killed so far: on a tree that hangs, the sweep stops early instead of waiting
/// for thousands of timeouts (the hangs seen so far are reported; nothing is claimed about the rest)
pub static HANGS: AtomicU64 = AtomicU64::new(0);
pub const MAX_HANGS: u64 = 10;

pub fn too_many_hangs() -> bool {
    HANGS.load(Ordering::Relaxed) >= MAX_HANGS
}

fn scratch_dir() -> std::path::PathBuf {
    let base = std::env::var("TMPDIR").unwrap_or_else(|_| "/tmp".to_string());
    let d = std::path::PathBuf::from(base).join(format!("wmc-e4-{}-{}", std::process::id(), SCRATCH_ID.fetch_add(1, Ordering::Relaxed)));
    let _ = std::fs::create_dir_all(&d);
    d
}

/// One command of a session. Go carries its virtual expiry index (None = real clock / zero allowance).
#[derive(Clone, Debug, PartialEq, Eq, Hash, PartialOrd, Ord)]
pub struct Cmd {
    pub line: String,
    pub expiry: Option<u64>, // only for go lines with a positive allowance
}

/// the move on a bestmove line (`bestmove <move> [ponder <move>]`)
pub fn bestmove_of(line: &str) -> Option<String> {
    let mut t = line.split_whitespace();
    if t.next() != Some("bestmove") {
        return None;
    }
    t.next().map(|m| m.to_string())
}

/// a line the engine handles as a go command (its first token, after whitespace clean-up, is exactly "go")
pub fn is_go(line: &str) -> bool {
    line.split_whitespace().next() == Some("go")
}

pub fn c(line: &str) -> Cmd {
    Cmd { line: line.to_string(), expiry: None }
}
pub fn go(line: &str, k: u64) -> Cmd {
    Cmd { line: line.to_string(), expiry: Some(k) }
}

pub struct RunOpts<'a> {
    pub bin: &'a str,
    pub hooks: bool,
    pub end: End,
    pub timeout: Duration,
    pub args: Vec<String>,
    pub pace_ms: u64, // pause between lines (0 = write everything at once)
    pub io_first: bool, // the I/O thread answers with the first move it receives (search thread carries on)
}

#[derive(Clone, Copy, PartialEq, Eq)]
pub enum End {
    Quit,
    CloseStdin,
}

pub fn default_opts<'a>() -> RunOpts<'a> {
    RunOpts { bin: BIN_ON, hooks: true, end: End::Quit, timeout: Duration::from_secs(8), args: Vec::new(), pace_ms: 0, io_first: false }
}

/// Run one fresh process of the engine through a session (after the `uci` handshake).
pub fn run_session(cmds: &[Cmd], opts: &RunOpts) -> Outcome {
    let dir = scratch_dir();
    let mut command = Command::new(opts.bin);
    command.args(&opts.args).current_dir(&dir).stdin(Stdio::piped()).stdout(Stdio::piped()).stderr(Stdio::piped());
    if opts.hooks {
        // every go line consumes one clock entry, in order (go lines with a zero allowance ignore theirs)
        let ks: Vec<String> = cmds.iter().filter(|c| is_go(&c.line)).map(|c| c.expiry.map(|k| k.to_string()).unwrap_or("0".into())).collect();
        command.env("WALLEYE_VERIF_CLOCK", if ks.is_empty() { "0".to_string() } else { ks.join(",") });
        command.env("WALLEYE_VERIF_DUMP", "1");
        if opts.io_first {
            command.env("WALLEYE_VERIF_IO", "first");
        }
    }
    let t0 = Instant::now();
    let mut child = match command.spawn() {
        Ok(c) => c,
        Err(e) => crate::report::machinery_error(&format!("cannot start {}: {}", opts.bin, e)),
    };
    let mut stdin = child.stdin.take().unwrap();
    let mut stdout = child.stdout.take().unwrap();
    let mut stderr = child.stderr.take().unwrap();
    let mut input = String::from("uci\n");
    for c in cmds {
        input.push_str(&c.line);
        input.push('\n');
    }
    if opts.end == End::Quit {
        input.push_str("quit\n");
    }
    let pace = opts.pace_ms;
    let writer = std::thread::spawn(move || {
        if pace == 0 {
            let _ = stdin.write_all(input.as_bytes());
        } else {
            for l in input.lines() {
                let _ = stdin.write_all(l.as_bytes());
                let _ = stdin.write_all(b"\n");
                let _ = stdin.flush();
                std::thread::sleep(Duration::from_millis(pace));
            }
        }
        drop(stdin); // closes the pipe
    });
    let out_reader = std::thread::spawn(move || {
        // line-wise with arrival times
        let mut lines: Vec<(String, u128)> = Vec::new();
        let mut buf = Vec::new();
        let mut byte = [0u8; 4096];
        loop {
            match stdout.read(&mut byte) {
                Ok(0) | Err(_) => break,
                Ok(n) => {
                    for b in &byte[..n] {
                        if *b == b'\n' {
                            lines.push((String::from_utf8_lossy(&buf).to_string(), t0.elapsed().as_millis()));
                            buf.clear();
                        } else {
                            buf.push(*b);
                        }
                    }
                }
            }
        }
        if !buf.is_empty() {
            lines.push((String::from_utf8_lossy(&buf).to_string(), t0.elapsed().as_millis()));
        }
        lines
    });
    let err_reader = std::thread::spawn(move || {
        let mut s = String::new();
        let _ = stderr.read_to_string(&mut s);
        s
    });
    let mut timed_out = false;
    let exit_code;
    loop {
        match child.try_wait() {
            Ok(Some(st)) => {
                exit_code = st.code();
                break;
            }
            Ok(None) => {
                if t0.elapsed() > opts.timeout {
                    timed_out = true;
                    HANGS.fetch_add(1, Ordering::Relaxed);
                    let _ = child.kill();
                    let st = child.wait().ok();
                    exit_code = st.and_then(|s| s.code());
                    break;
                }
                std::thread::sleep(Duration::from_micros(300));
            }
            Err(_) => {
                exit_code = None;
                break;
            }
        }
    }
    let wall_ms = t0.elapsed().as_millis();
    let _ = writer.join();
    let lines = out_reader.join().unwrap_or_default();
    let err = err_reader.join().unwrap_or_default();
    let _ = std::fs::remove_dir_all(&dir);
    let mut o = Outcome { exit_code, timed_out, wall_ms, ..Default::default() };
    for (l, t) in lines {
        o.stdout.push(l);
        o.stdout_times_ms.push(t);
    }
    for l in err.lines() {
        if let Some(rest) = l.strip_prefix("VERIF-STATE cmd=[") {
            if let Some(end) = rest.find("] ") {
                o.state_cmds.push(rest[..end].to_string());
                o.states.push(rest[end + 2..].to_string());
            }
        } else if let Some(rest) = l.strip_prefix("VERIF-SEARCH ") {
            o.searches.push(rest.to_string());
        }
    }
    o
}

/// Feed raw bytes (no handshake added), close stdin, and report (stdout, exit code, timed out)
pub fn run_raw(bin: &str, input: &[u8], timeout: Duration) -> (String, Option<i32>, bool) {
    let dir = scratch_dir();
    let mut child = match Command::new(bin).current_dir(&dir).stdin(Stdio::piped()).stdout(Stdio::piped()).stderr(Stdio::null()).spawn() {
        Ok(c) => c,
        Err(e) => crate::report::machinery_error(&format!("cannot start {}: {}", bin, e)),
    };
    let mut stdin = child.stdin.take().unwrap();
    let mut stdout = child.stdout.take().unwrap();
    let data = input.to_vec();
    let w = std::thread::spawn(move || {
        let _ = stdin.write_all(&data);
        drop(stdin);
    });
    let r = std::thread::spawn(move || {
        let mut s = String::new();
        let _ = stdout.read_to_string(&mut s);
        s
    });
    let t0 = Instant::now();
    let mut timed_out = false;
    let code;
    loop {
        match child.try_wait() {
            Ok(Some(st)) => {
                code = st.code();
                break;
            }
            Ok(None) => {
                if t0.elapsed() > timeout {
                    timed_out = true;
                    HANGS.fetch_add(1, Ordering::Relaxed);
                    let _ = child.kill();
                    code = child.wait().ok().and_then(|s| s.code());
                    break;
                }
                std::thread::sleep(Duration::from_micros(300));
            }
            Err(_) => {
                code = None;
                break;
            }
        }
    }
    let _ = w.join();
    let out = r.join().unwrap_or_default();
    let _ = std::fs::remove_dir_all(&dir);
    (out, code, timed_out)
}

const HANDSHAKE_LINES: usize = 4;

/// stdout after the handshake, info lines without their time field
pub fn replies(o: &Outcome) -> Vec<String> {
    // `info string ...` is free-form chatter the protocol allows at any time; it is not a reply
    o.stdout.iter().skip(HANDSHAKE_LINES).filter(|l| !l.starts_with("info string")).map(|l| if l.starts_with("info") { crate::e2_clockpoints::strip_time(l) } else { l.clone() }).collect()
}

/// state with the fields that `go` is allowed to leave behind but that cannot influence a later
/// `position` (none are dropped: the full dump is the state)
pub fn last_state(o: &Outcome) -> String {
    o.states.last().cloned().unwrap_or_else(|| "<initial>".to_string())
}

/// the dumped state without the two root-board fields no reply can depend on (the root's own move
/// descriptor and ordering hint are overwritten in every successor and never printed)
pub fn observable_state(st: &str) -> String {
    st.split(' ').filter(|t| !t.starts_with("last=") && !t.starts_with("oh=")).collect::<Vec<_>>().join(" ")
}

fn session_json(cmds: &[Cmd]) -> J {
    J::obj().set("kind", J::s("e4-session")).set("lines", J::Arr(cmds.iter().map(|c| J::s(&c.line)).collect())).set("virtual_expiry_per_go", J::Arr(cmds.iter().filter(|c| is_go(&c.line)).map(|c| match c.expiry { Some(k) => J::Int(k as i128), None => J::s("zero allowance") }).collect()))
}

pub fn run_parallel<T: Send, F: Fn(usize) -> T + Sync>(n: usize, f: F) -> Vec<T> {
    let idx = AtomicUsize::new(0);
    let out: Mutex<Vec<(usize, T)>> = Mutex::new(Vec::with_capacity(n));
    std::thread::scope(|s| {
        for _ in 0..threads() {
            s.spawn(|| loop {
                let i = idx.fetch_add(1, Ordering::Relaxed);
                if i >= n || too_many_hangs() {
                    break;
                }
                let r = f(i);
                out.lock().unwrap().push((i, r));
            });
        }
    });
    let mut v = out.into_inner().unwrap();
    v.sort_by_key(|(i, _)| *i);
    v.into_iter().map(|(_, t)| t).collect()
}

pub fn require_binaries() {
    for b in [BIN_ON, BIN_OFF] {
        if !std::path::Path::new(b).exists() {
            crate::report::machinery_error(&format!("{} is not built (run bin/setup)", b));
        }
    }
}

// ================================================================================================ alphabets

pub const POSITIONS: [&str; 6] = [
    "position startpos",
    "position startpos moves e2e4 e7e5 g1f3 b8c6",
    "position fen r3k2r/p1ppqpb1/bn2pnp1/3PN3/1p2P3/2N2Q1p/PPPBBPPP/R3K2R w KQkq - 0 1",
    "position fen 8/2p5/3p4/KP5r/1R3p1k/8/4P1P1/8 w - - 0 1",
    "position fen 7k/8/8/8/8/8/R7/K7 w - - 0 1 moves a2b2 h8g8 b2a2 g8h8 a2b2 h8g8 b2a2 g8h8",
    "position startpos moves g1f3 g8f6 f3g1 f6g8 g1f3 g8f6 f3g1 f6g8 e2e4",
];
const GO_TIMED: &str = "go wtime 100000 btime 100000 winc 1000 binc 1000";

pub fn sigma() -> Vec<Cmd> {
    let mut v: Vec<Cmd> = POSITIONS.iter().map(|p| c(p)).collect();
    // finished games: a checkmate reached by moves, a stalemate given as FEN
    v.push(c("position startpos moves f2f3 e7e5 g2g4 d8h4"));
    v.push(c("position fen 7k/5Q2/6K1/8/8/8/8/8 b - - 0 1"));
    v.push(c("go"));
    v.push(go(GO_TIMED, 40));
    v.push(c("ucinewgame"));
    v.push(c("isready"));
    v.push(c("setoption name DebugLogLevel value None"));
    v.push(c("setoption name DebugLogLevel value Info"));
    v.push(c("setoption name Hash value 16"));
    v.push(c("stop"));
    v.push(c("debug on"));
    v.push(c("xyzzy 1 2 3"));
    v
}

pub fn probes() -> Vec<Vec<Cmd>> {
    let mut v = Vec::new();
    for p in POSITIONS {
        v.push(vec![c(p), c("go")]);
        v.push(vec![c(p), go(GO_TIMED, 40)]);
        v.push(vec![c(p), go(GO_TIMED, 400)]);
    }
    v
}

// ================================================================================================ C16

pub struct Graph {
    pub nodes: Vec<(String, Vec<Cmd>)>, // (state, a shortest session reaching it)
    pub dynamic: Vec<Vec<Cmd>>,         // per node: continuation commands derived from what the engine answered
    pub index: HashMap<String, usize>,
    pub edges: u64,
    pub depth_reached: usize,
    pub fixpoint: bool,
}

/// Continuation commands a GUI could send next, derived from what the session has shown so far:
/// the current game (last position command + the engine's own answers since) continued by a legal reply,
/// or — if no go followed the last position command — the same game with its last move taken back and replaced.
pub fn dynamic_cmds(session: &[Cmd], o: &Outcome) -> Vec<Cmd> {
    let lp = match session.iter().rposition(|c| c.line.starts_with("position")) {
        Some(i) => i,
        None => return Vec::new(),
    };
    // bestmoves of the go commands after it
    let mut it = replies(o).into_iter();
    let mut bests: Vec<String> = Vec::new();
    for (i, c) in session.iter().enumerate() {
        if is_go(&c.line) {
            for l in it.by_ref() {
                if let Some(m) = bestmove_of(&l) {
                    if i > lp && m != "0000" && m != "(none)" {
                        bests.push(m);
                    }
                    break;
                }
            }
        } else if c.line.trim() == "isready" {
            let _ = it.next();
        }
    }
    let t: Vec<&str> = session[lp].line.split_whitespace().collect();
    let mi = t.iter().position(|x| *x == "moves");
    let prefix = t[..mi.unwrap_or(t.len())].join(" ");
    let mut moves: Vec<String> = mi.map(|i| t[i + 1..].iter().map(|x| x.to_string()).collect()).unwrap_or_default();
    let mut out = Vec::new();
    let render = |mv: &[String]| if mv.is_empty() { prefix.clone() } else { format!("{} moves {}", prefix, mv.join(" ")) };
    if !bests.is_empty() {
        moves.extend(bests);
        if let Some(p) = pos_of_command(&render(&moves)) {
            let mut legal: Vec<String> = p.legal_moves().iter().map(|m| m.uci()).collect();
            legal.sort();
            for r in legal.iter().take(2) {
                let mut mv = moves.clone();
                mv.push(r.clone());
                out.push(c(&render(&mv)));
            }
        }
    } else if let Some(last) = moves.pop() {
        if let Some(p) = pos_of_command(&render(&moves)) {
            let mut legal: Vec<String> = p.legal_moves().iter().map(|m| m.uci()).filter(|m| *m != last).collect();
            legal.sort();
            if let Some(r) = legal.first() {
                let mut mv = moves.clone();
                mv.push(r.clone());
                out.push(c(&render(&mv)));
            }
        }
    }
    out
}

/// BFS over the session state graph: node = dumped loop state, edge = one command appended to a
/// shortest session reaching the node (fresh process, session replayed).
pub fn build_graph(rep: &Report, alphabet: &[Cmd], max_depth: usize) -> Graph {
    let mut g = Graph { nodes: vec![("<initial>".to_string(), Vec::new())], dynamic: vec![Vec::new()], index: HashMap::new(), edges: 0, depth_reached: 0, fixpoint: false };
    g.index.insert("<initial>".to_string(), 0);
    let mut frontier: Vec<usize> = vec![0];
    for depth in 1..=max_depth {
        let mut jobs: Vec<(usize, Cmd)> = Vec::new();
        for &n in &frontier {
            for a in alphabet {
                jobs.push((n, a.clone()));
            }
            for a in &g.dynamic[n] {
                jobs.push((n, a.clone()));
            }
        }
        let nodes_ref = &g.nodes;
        let results = run_parallel(jobs.len(), |i| {
            let (n, a) = &jobs[i];
            let mut session = nodes_ref[*n].1.clone();
            session.push(a.clone());
            let o = run_session(&session, &default_opts());
            (session, o)
        });
        g.edges += results.len() as u64;
        let mut next = Vec::new();
        for (session, o) in results {
            if o.timed_out || o.states.len() != session.len() {
                rep.fail(
                    if o.timed_out { "C08" } else { "C17" },
                    if o.timed_out { "session-hangs" } else { "session-died" },
                    format!("session {:?}: {} commands handled out of {}, timed out: {}, exit {:?}", session.iter().map(|c| c.line.clone()).collect::<Vec<_>>(), o.states.len(), session.len(), o.timed_out, o.exit_code),
                    session_json(&session),
                );
                continue;
            }
            let st = last_state(&o);
            if !g.index.contains_key(&st) {
                g.index.insert(st.clone(), g.nodes.len());
                next.push(g.nodes.len());
                g.dynamic.push(dynamic_cmds(&session, &o));
                g.nodes.push((st, session));
            }
        }
        g.depth_reached = depth;
        if next.is_empty() {
            g.fixpoint = true;
            break;
        }
        frontier = next;
    }
    g
}

fn infos_prefix_related(a: &[String], b: &[String]) -> bool {
    let ia: Vec<&String> = a.iter().filter(|l| l.starts_with("info")).collect();
    let ib: Vec<&String> = b.iter().filter(|l| l.starts_with("info")).collect();
    let n = ia.len().min(ib.len());
    ia[..n] == ib[..n]
}

pub fn run_c16(rep: &Report) -> i32 {
    require_binaries();
    let quick = rep.quick();
    let alphabet = sigma();
    let g = build_graph(rep, &alphabet, if quick { 4 } else { 7 });
    rep.add("session_states", g.nodes.len() as u64);
    rep.add("session_edges", g.edges);
    rep.note(format!("session graph: {} states, {} edges, depth {}{}", g.nodes.len(), g.edges, g.depth_reached, if g.fixpoint { " (fixpoint)" } else { " (depth bound)" }));
    // the way the process was started is earlier context too
    startup_option_sessions(rep);
    let probes = probes();
    // fresh engine: handshake + probe only
    let fresh: Vec<Outcome> = run_parallel(probes.len(), |i| run_session(&probes[i], &default_opts()));
    if fresh.len() != probes.len() || too_many_hangs() {
        rep.note("aborted: too many sessions had to be killed (see the violations reported)".to_string());
        return rep.finish(g.nodes.len() as u64, g.edges.max(1), 0, false, "aborted after repeated hangs");
    }
    for (i, f) in fresh.iter().enumerate() {
        let again = run_session(&probes[i], &default_opts());
        if replies(&again) != replies(f) || last_state(&again) != last_state(f) {
            rep.fail("C16", "fresh-engine-not-repeatable", format!("probe {:?} gives different results in two fresh processes", probes[i].iter().map(|c| c.line.clone()).collect::<Vec<_>>()), session_json(&probes[i]));
        }
    }
    // every probe after every node
    let jobs: Vec<(usize, usize)> = (0..g.nodes.len()).flat_map(|n| (0..probes.len()).map(move |p| (n, p))).collect();
    let probe_runs = AtomicU64::new(0);
    let distinct_answers: Mutex<BTreeSet<String>> = Mutex::new(BTreeSet::new());
    run_parallel(jobs.len(), |i| {
        let (n, p) = jobs[i];
        let prefix = &g.nodes[n].1;
        let mut session = prefix.clone();
        session.extend(probes[p].iter().cloned());
        // the probe sent twice: same result twice
        session.extend(probes[p].iter().cloned());
        let o = run_session(&session, &default_opts());
        probe_runs.fetch_add(1, Ordering::Relaxed);
        if o.timed_out || o.states.len() != session.len() {
            rep.fail("C08", "session-hangs", format!("session of {} commands: {} handled, timed out {}", session.len(), o.states.len(), o.timed_out), session_json(&session));
            return;
        }
        // split the replies: those of the prefix, of the first probe, of the second probe
        let f = &fresh[p];
        let fr = replies(f);
        let all = replies(&o);
        if all.len() < 2 * fr.len() {
            rep.fail("C16", "probe-reply-missing", format!("after {:?} the probe {:?} produced fewer lines than on a fresh engine", prefix.iter().map(|c| c.line.clone()).collect::<Vec<_>>(), probes[p].iter().map(|c| c.line.clone()).collect::<Vec<_>>()), session_json(&session));
            return;
        }
        let second = &all[all.len() - fr.len()..];
        let first = &all[all.len() - 2 * fr.len()..all.len() - fr.len()];
        if let Some(b) = fr.iter().find(|l| l.starts_with("bestmove")) {
            distinct_answers.lock().unwrap().insert(format!("{}:{}", p, b));
        }
        for (which, got) in [("first", first), ("repeated", second)] {
            if got != &fr[..] {
                let kind = if probes[p][1].expiry.is_none() { "zero-allowance-bestmove-differs" } else { "timed-improvements-differ" };
                rep.fail(
                    "C16",
                    &format!("{}/after-{}", kind, prefix.last().map(|c| c.line.split(' ').next().unwrap_or("").to_string()).unwrap_or("nothing".into())),
                    format!("after {:?} the {} probe {:?} replies {:?}, a fresh engine replies {:?}", prefix.iter().map(|c| c.line.clone()).collect::<Vec<_>>(), which, probes[p].iter().map(|c| c.line.clone()).collect::<Vec<_>>(), got, fr),
                    session_json(&session),
                );
            }
        }
        // the state seen by the search and left by the probe equal those of a fresh engine
        let k = o.states.len();
        let st_first = &o.states[k - 3]; // after the first probe's go
        if observable_state(st_first) != observable_state(&last_state(f)) || observable_state(&o.states[k - 1]) != observable_state(st_first) {
            rep.fail("C16", "state-after-probe-differs", format!("after {:?} and probe {:?} the loop state differs from a fresh engine's", prefix.iter().map(|c| c.line.clone()).collect::<Vec<_>>(), probes[p].iter().map(|c| c.line.clone()).collect::<Vec<_>>()), session_json(&session));
        }
        if let (Some(a), Some(b)) = (o.searches.get(o.searches.len().wrapping_sub(2)), f.searches.last()) {
            if observable_state(a) != observable_state(b) {
                rep.fail("C16", "search-input-differs", format!("after {:?} the search started by probe {:?} receives a different board/record than on a fresh engine", prefix.iter().map(|c| c.line.clone()).collect::<Vec<_>>(), probes[p].iter().map(|c| c.line.clone()).collect::<Vec<_>>()), session_json(&session));
            }
        }
    });
    // dynamic probes: after every state, every continuation of its own game followed by go, against a fresh engine
    let dyn_jobs: Vec<(usize, usize, bool)> = (0..g.nodes.len()).flat_map(|n| (0..g.dynamic[n].len()).flat_map(move |d| [(n, d, false), (n, d, true)])).collect();
    let fresh_cache: Mutex<HashMap<(String, bool), Outcome>> = Mutex::new(HashMap::new());
    let dyn_runs = AtomicU64::new(0);
    run_parallel(dyn_jobs.len(), |i| {
        let (n, d, timed) = dyn_jobs[i];
        let probe = vec![g.dynamic[n][d].clone(), if timed { go(GO_TIMED, 40) } else { c("go") }];
        let key = (probe[0].line.clone(), timed);
        let cached = fresh_cache.lock().unwrap().get(&key).cloned();
        let f = match cached {
            Some(f) => f,
            None => {
                let f = run_session(&probe, &default_opts());
                fresh_cache.lock().unwrap().insert(key, f.clone());
                f
            }
        };
        let mut session = g.nodes[n].1.clone();
        session.extend(probe.iter().cloned());
        let o = run_session(&session, &default_opts());
        dyn_runs.fetch_add(1, Ordering::Relaxed);
        if o.timed_out || o.states.len() != session.len() {
            rep.fail("C08", "session-hangs", format!("session of {} commands: {} handled, timed out {}, exit {:?}", session.len(), o.states.len(), o.timed_out, o.exit_code), session_json(&session));
            return;
        }
        let fr = replies(&f);
        let all = replies(&o);
        let got: Vec<String> = if all.len() >= fr.len() { all[all.len() - fr.len()..].to_vec() } else { all.clone() };
        if got != fr || observable_state(&last_state(&o)) != observable_state(&last_state(&f)) {
            rep.fail(
                "C16",
                &format!("continuation-of-own-game-differs/after-{}", g.nodes[n].1.last().map(|c| c.line.split(' ').next().unwrap_or("").to_string()).unwrap_or("nothing".into())),
                format!("after {:?} the probe {:?} replies {:?} (a fresh engine: {:?}){}", g.nodes[n].1.iter().map(|c| c.line.clone()).collect::<Vec<_>>(), probe.iter().map(|c| c.line.clone()).collect::<Vec<_>>(), got, fr, if observable_state(&last_state(&o)) != observable_state(&last_state(&f)) { "; the loop state differs too" } else { "" }),
                session_json(&session),
            );
        }
    });
    rep.add("dynamic_probe_runs_continuing_the_sessions_own_game", dyn_runs.load(Ordering::Relaxed));
    // the other extreme of the hand-off: the I/O thread answers with the FIRST move it receives while the search
    // thread carries on and keeps sending. What a search sends after its go has been answered must never be
    // taken for the answer to a later go: bestmove sequences (only those: info lines of the still-running
    // searches interleave freely) must equal those of a fresh engine in the same mode.
    let early_opts = || {
        let mut o = default_opts();
        o.io_first = true;
        o
    };
    let timed_probes: Vec<usize> = (0..probes.len()).filter(|p| probes[*p][1].expiry.is_some()).collect();
    let bestmoves = |o: &Outcome| -> Vec<String> { o.stdout.iter().filter(|l| l.starts_with("bestmove")).cloned().collect() };
    let early_fresh: Vec<Vec<String>> = run_parallel(timed_probes.len(), |i| {
        let mut s = probes[timed_probes[i]].clone();
        s.extend(probes[timed_probes[i]].iter().cloned());
        bestmoves(&run_session(&s, &early_opts()))
    });
    let early_jobs: Vec<(usize, usize)> = (0..g.nodes.len()).filter(|n| g.nodes[*n].1.iter().any(|c| c.expiry.is_some())).flat_map(|n| (0..timed_probes.len()).map(move |p| (n, p))).collect();
    let early_runs = AtomicU64::new(0);
    if early_fresh.len() == timed_probes.len() {
        run_parallel(early_jobs.len(), |i| {
            let (n, p) = early_jobs[i];
            let mut session = g.nodes[n].1.clone();
            let n_prefix_go = session.iter().filter(|c| is_go(&c.line)).count();
            session.extend(probes[timed_probes[p]].iter().cloned());
            session.extend(probes[timed_probes[p]].iter().cloned());
            let o = run_session(&session, &early_opts());
            early_runs.fetch_add(1, Ordering::Relaxed);
            if o.timed_out {
                rep.fail("C08", "session-hangs", format!("early-answer mode: session of {} commands had to be killed", session.len()), session_json(&session).set("mode", J::s("WALLEYE_VERIF_IO=first")));
                return;
            }
            let b = bestmoves(&o);
            let got: Vec<String> = b.iter().skip(n_prefix_go).cloned().collect();
            if got != early_fresh[p] {
                rep.fail("C16", "early-answer-mode/bestmove-differs-from-fresh-engine", format!("I/O thread answering with the first move it receives: after {:?} the probe {:?} (sent twice) is answered {:?}, a fresh engine answers {:?}", g.nodes[n].1.iter().map(|c| c.line.clone()).collect::<Vec<_>>(), probes[timed_probes[p]].iter().map(|c| c.line.clone()).collect::<Vec<_>>(), got, early_fresh[p]), session_json(&session).set("mode", J::s("WALLEYE_VERIF_IO=first")));
            }
        });
    }
    rep.add("early_answer_mode_probe_runs", early_runs.load(Ordering::Relaxed));
    // prefix relation between the two timed allowances of each probed position
    for p in (0..probes.len()).step_by(3) {
        if !infos_prefix_related(&replies(&fresh[p + 1]), &replies(&fresh[p + 2])) {
            rep.fail("C16", "longer-allowance-changes-earlier-improvements", format!("probe {}: improvements under expiry 40 are not a prefix of those under expiry 400", POSITIONS[p / 3]), session_json(&probes[p + 2]));
        }
    }
    // raw prefixes (no dedup) must land on a node the BFS has: cross-check of the dedup argument
    let raw_len = if quick { 2 } else { 3 };
    let mut raw: Vec<Vec<Cmd>> = vec![Vec::new()];
    let mut level: Vec<Vec<Cmd>> = vec![Vec::new()];
    for _ in 0..raw_len {
        let mut nl = Vec::new();
        for s in &level {
            for a in &alphabet {
                let mut t = s.clone();
                t.push(a.clone());
                nl.push(t);
            }
        }
        raw.extend(nl.iter().cloned());
        level = nl;
    }
    let raw_ok = AtomicU64::new(0);
    run_parallel(raw.len(), |i| {
        if raw[i].is_empty() {
            return;
        }
        let o = run_session(&raw[i], &default_opts());
        if o.states.len() == raw[i].len() && g.index.contains_key(&last_state(&o)) {
            raw_ok.fetch_add(1, Ordering::Relaxed);
        } else if o.states.len() == raw[i].len() && raw[i].len() <= g.depth_reached {
            rep.fail("C16", "dedup-cross-check", format!("raw session {:?} ends in a state the BFS does not have", raw[i].iter().map(|c| c.line.clone()).collect::<Vec<_>>()), session_json(&raw[i]));
        }
    });
    // conformance: sessions replayed on the hooks-off binary with real clocks (zero-allowance go only)
    let conf_n = if quick { 150 } else { 1500 };
    let conf: Vec<Vec<Cmd>> = g.nodes.iter().map(|(_, s)| s.clone()).chain(raw.iter().cloned()).filter(|s| !s.is_empty() && s.iter().all(|c| c.expiry.is_none())).take(conf_n).collect();
    let conf_ok = AtomicU64::new(0);
    run_parallel(conf.len(), |i| {
        let on = run_session(&conf[i], &default_opts());
        let mut off_opts = default_opts();
        off_opts.bin = BIN_OFF;
        off_opts.hooks = false;
        let off = run_session(&conf[i], &off_opts);
        if replies(&on) == replies(&off) && on.exit_code == off.exit_code {
            conf_ok.fetch_add(1, Ordering::Relaxed);
        } else {
            crate::report::machinery_error(&format!("hooks-on and hooks-off binaries disagree on session {:?}: {:?} vs {:?}", conf[i].iter().map(|c| c.line.clone()).collect::<Vec<_>>(), replies(&on), replies(&off)));
        }
    });
    rep.add("probe_runs", probe_runs.load(Ordering::Relaxed));
    rep.add("distinct_probe_answers", distinct_answers.lock().unwrap().len() as u64);
    rep.add("raw_prefixes_landing_on_bfs_nodes", raw_ok.load(Ordering::Relaxed));
    rep.add("sessions_replayed_on_hooks_off_binary_identical", conf_ok.load(Ordering::Relaxed));
    for (st, s) in g.nodes.iter().skip(1).step_by(g.nodes.len() / 4 + 1) {
        rep.sample(J::obj().set("session", J::Arr(s.iter().map(|c| J::s(&c.line)).collect())).set("state", J::s(&st.chars().take(160).collect::<String>())));
    }
    rep.assume("the loop's only mutable locals are the board and the repetition record (dumped by hook H7), so equal dumps have equal futures");
    rep.assume("under the environment-driven virtual clock the I/O thread answers after the search thread has finished and been drained: the reply is the search's last improvement under expiry k");
    let rule = format!("BFS over the session state graph: {} commands as transitions from every state, to {}; then each of {} probes (6 positions x zero allowance / expiry 40 / expiry 400), sent twice, after every state, compared with a fresh engine; transitions and probes also include, per state, the continuations of the session's own game (last position command + the engine's answers + a legal reply, or the last move taken back and replaced); all raw sessions of length <= {} cross-check the state dedup", alphabet.len(), if g.fixpoint { "the fixpoint".to_string() } else { format!("depth {}", g.depth_reached) }, probes.len(), raw_len);
    let total_sessions = g.edges + probe_runs.load(Ordering::Relaxed) + dyn_runs.load(Ordering::Relaxed) + early_runs.load(Ordering::Relaxed) + raw.len() as u64;
    rep.finish(g.nodes.len() as u64, total_sessions, conf_ok.load(Ordering::Relaxed), g.fixpoint, &rule)
}

// ================================================================================================ C17

pub const GARBAGE: [&str; 19] = ["", "   ", "\t\t", "foo", "xyzzy 1 2 3", "POSITION startpos", "stop", "ponderhit", "debug on", "uci", "register later", "go2", "isreadyy", "position2 startpos", "hello\u{a0}world", "a\u{2003}b\u{3000}c d", "\u{a0}", "é\u{a0}é\u{85}x", "stop\u{2028}now"];

pub fn run_c17(rep: &Report) -> i32 {
    require_binaries();
    let quick = rep.quick();
    // base alphabet: well-formed commands
    // includes the option the handshake advertises with both of its values: with logging on, the log
    // macros evaluate their arguments, which they do not while it is off
    let base: Vec<Cmd> = vec![c(POSITIONS[0]), c(POSITIONS[1]), c(POSITIONS[4]), c("go"), go(GO_TIMED, 30), c("isready"), c("ucinewgame"), c("setoption name DebugLogLevel value None"), c("setoption name DebugLogLevel value Info")];
    let l = if quick { 2 } else { 3 };
    let mut sessions: Vec<Vec<Cmd>> = vec![Vec::new()];
    let mut level: Vec<Vec<Cmd>> = vec![Vec::new()];
    for _ in 0..l {
        let mut nl = Vec::new();
        for s in &level {
            for a in &base {
                let mut t = s.clone();
                t.push(a.clone());
                nl.push(t);
            }
        }
        sessions.extend(nl.iter().cloned());
        level = nl;
    }
    let base_runs: Vec<Outcome> = run_parallel(sessions.len(), |i| {
        let mut s = sessions[i].clone();
        s.push(c("isready"));
        run_session(&s, &default_opts())
    });
    if base_runs.len() != sessions.len() || too_many_hangs() {
        rep.note("aborted: too many sessions had to be killed".to_string());
        for (i, o) in base_runs.iter().enumerate() {
            if o.timed_out {
                rep.fail("C08", "session-hangs", format!("session {:?} had to be killed", sessions[i].iter().map(|c| c.line.clone()).collect::<Vec<_>>()), session_json(&sessions[i]));
            }
        }
        return rep.finish(sessions.len() as u64, base_runs.len().max(1) as u64, 0, false, "aborted after repeated hangs");
    }
    let garbage_runs = AtomicU64::new(0);
    let readyoks = AtomicU64::new(0);
    let lifecycle_runs = AtomicU64::new(0);
    // every garbage line at every position of every base session
    let jobs: Vec<(usize, usize, usize)> = (0..sessions.len()).flat_map(|s| (0..=sessions[s].len()).flat_map(move |at| (0..GARBAGE.len()).map(move |gi| (s, at, gi)))).collect();
    run_parallel(jobs.len(), |j| {
        let (si, at, gi) = jobs[j];
        let mut s = sessions[si].clone();
        s.insert(at, c(GARBAGE[gi]));
        s.push(c("isready"));
        let o = run_session(&s, &default_opts());
        garbage_runs.fetch_add(1, Ordering::Relaxed);
        let b = &base_runs[si];
        let sig_tail = format!("{:?}", GARBAGE[gi]);
        if o.timed_out || o.states.len() != s.len() {
            rep.fail("C17", &format!("garbage-line-kills-or-hangs/{}", sig_tail), format!("session {:?}: handled {} of {} lines, timed out {}, exit {:?}", s.iter().map(|c| c.line.clone()).collect::<Vec<_>>(), o.states.len(), s.len(), o.timed_out, o.exit_code), session_json(&s));
            return;
        }
        if replies(&o) != replies(b) {
            rep.fail("C17", &format!("garbage-line-changes-output/{}", sig_tail), format!("session {:?} replies {:?}; without the garbage line: {:?}", s.iter().map(|c| c.line.clone()).collect::<Vec<_>>(), replies(&o), replies(b)), session_json(&s));
        }
        // state before and after the garbage line
        let before = if at == 0 { None } else { Some(&o.states[at - 1]) };
        let after = &o.states[at];
        let unchanged = match before {
            Some(bf) => bf == after,
            None => {
                // the state after a leading garbage line must be that of a session starting with another ignored line
                true
            }
        };
        if !unchanged || last_state(&o) != last_state(b) {
            rep.fail("C17", &format!("garbage-line-changes-state/{}", sig_tail), format!("session {:?}: the loop state changes across the garbage line", s.iter().map(|c| c.line.clone()).collect::<Vec<_>>()), session_json(&s));
        }
        if o.stdout.last().map(|l| l.as_str()) == Some("readyok") {
            readyoks.fetch_add(1, Ordering::Relaxed);
        } else {
            rep.fail("C17", "isready-not-answered", format!("session {:?}: the final isready is not answered with readyok (last line {:?})", s.iter().map(|c| c.line.clone()).collect::<Vec<_>>(), o.stdout.last()), session_json(&s));
        }
    });
    // odd whitespace around well-formed commands and unknown tokens inside go: same replies
    let variants: Vec<(Vec<Cmd>, Vec<Cmd>)> = vec![
        (vec![c("isready")], vec![c("  isready  ")]),
        (vec![c("isready")], vec![c("\tisready\t\t")]),
        (vec![c(POSITIONS[1]), c("go")], vec![c("position   startpos    moves  e2e4 e7e5   g1f3 b8c6  "), c("  go  ")]),
        (vec![c(POSITIONS[0]), go(GO_TIMED, 30)], vec![c(POSITIONS[0]), go("go infinite wtime 100000 foo btime 100000 bar baz winc 1000 binc 1000 ponder", 30)]),
        (vec![c(POSITIONS[0]), go(GO_TIMED, 30)], vec![c(POSITIONS[0]), go("go depth 5 wtime 100000 btime 100000 winc 1000 binc 1000 searchmoves e2e4 d2d4", 30)]),
        (vec![c(POSITIONS[3]), go(GO_TIMED, 25)], vec![c(POSITIONS[3]), go("go nodes 1000 mate 3 wtime 100000 btime 100000 winc 1000 binc 1000 movetime", 25)]),
        (vec![c(POSITIONS[0]), c("go")], vec![c(POSITIONS[0]), c("go infinite")]),
        (vec![c(POSITIONS[0]), c("go")], vec![c(POSITIONS[0]), c("go ponder depth")]),
    ];
    for (a, b) in &variants {
        let (oa, ob) = (run_session(a, &default_opts()), run_session(b, &default_opts()));
        garbage_runs.fetch_add(2, Ordering::Relaxed);
        if replies(&oa) != replies(&ob) || last_state(&oa) != last_state(&ob) || ob.timed_out {
            rep.fail("C17", "whitespace-or-unknown-go-token-changes-behaviour", format!("{:?} replies {:?}, {:?} replies {:?}", a.iter().map(|c| c.line.clone()).collect::<Vec<_>>(), replies(&oa), b.iter().map(|c| c.line.clone()).collect::<Vec<_>>(), replies(&ob)), session_json(b));
        }
    }
    // lifecycle: quit and end-of-input after every prefix (on both binaries), including right after go
    let life_jobs: Vec<(usize, bool, bool)> = (0..sessions.len()).flat_map(|s| [(s, false, true), (s, true, true), (s, true, false)]).collect();
    run_parallel(life_jobs.len(), |j| {
        let (si, eof, hooks) = life_jobs[j];
        let mut opts = default_opts();
        opts.end = if eof { End::CloseStdin } else { End::Quit };
        opts.timeout = Duration::from_secs(if eof { 6 } else { 5 });
        if !hooks {
            opts.bin = BIN_OFF;
            opts.hooks = false;
        }
        // real clocks on the hooks-off binary: keep only zero-allowance go lines there
        let s: Vec<Cmd> = sessions[si].iter().filter(|c| hooks || c.expiry.is_none()).cloned().collect();
        let o = run_session(&s, &opts);
        lifecycle_runs.fetch_add(1, Ordering::Relaxed);
        if o.timed_out {
            rep.fail("C17", if eof { "end-of-input-does-not-end-the-process" } else { "quit-does-not-end-the-process" }, format!("session {:?} followed by {}: the process ({}) is still running after {} s", s.iter().map(|c| c.line.clone()).collect::<Vec<_>>(), if eof { "closing stdin" } else { "quit" }, if hooks { "hooks on" } else { "hooks off" }, opts.timeout.as_secs()), session_json(&s).set("end", J::s(if eof { "stdin closed" } else { "quit" })).set("binary", J::s(opts.bin)));
        }
    });
    // end of input at odd places: before the handshake, in the middle of a line (no final newline), after blanks
    let raw_cases: Vec<&[u8]> = vec![
        b"", b"uci", b"uci\n", b"uci\nisready", b"uci\nisready\n", b"uci\n\n", b"uci\n   \n", b"uci\n\n\n\n", b"uci\nposition startpos\ngo", b"uci\nposition startpos\ngo\n", b"uci\nposition startpos\ngo wtime 300 btime 300\n",
        b"uci\nxyzzy", b"uci\r\nisready\r\n", b"\n", b"isready\n", b"uci\nposition startpos moves e2e4\n\t",
    ];
    for bin in [BIN_ON, BIN_OFF] {
        let results = run_parallel(raw_cases.len(), |i| run_raw(bin, raw_cases[i], Duration::from_secs(6)));
        for (i, (out, code, timed_out)) in results.iter().enumerate() {
            lifecycle_runs.fetch_add(1, Ordering::Relaxed);
            let text = String::from_utf8_lossy(raw_cases[i]).to_string();
            if *timed_out {
                rep.fail("C17", "end-of-input-does-not-end-the-process", format!("input {:?} then end of input: the process ({}) is still running after 6 s", text, bin), J::obj().set("kind", J::s("c17-raw")).set("input", J::s(&text)).set("binary", J::s(bin)));
            } else if code.is_none() || *code == Some(101) {
                rep.fail("C17", "end-of-input-crashes-the-process", format!("input {:?} then end of input: exit status {:?}", text, code), J::obj().set("kind", J::s("c17-raw")).set("input", J::s(&text)).set("binary", J::s(bin)));
            }
            let readys = text.matches("isready").count();
            if text.starts_with("uci") && text.contains("uci\n") && out.matches("readyok").count() != readys {
                rep.fail("C17", "isready-not-answered", format!("input {:?}: {} readyok for {} isready", text, out.matches("readyok").count(), readys), J::obj().set("kind", J::s("c17-raw")).set("input", J::s(&text)).set("binary", J::s(bin)));
            }
        }
    }
    // unknown lines longer than any buffer: the line starts with a junk token and goes on with a command word
    // repeated up to 128 KiB (256 KiB thorough); the junk prefix takes every length modulo the period, so a
    // reader that cuts the line at ANY byte offset (a bounded read, a fixed buffer) would start its next "line"
    // exactly on a command word in one of the inputs
    let reach: usize = if rep.quick() { 128 * 1024 } else { 256 * 1024 };
    let mut long_inputs: Vec<(String, Vec<u8>)> = Vec::new();
    for word in ["isready", "quit"] {
        for j in 1..=word.len() + 1 {
            let mut line = "x".repeat(j);
            while line.len() < reach {
                line.push(' ');
                line.push_str(word);
            }
            let input = format!("uci\nposition startpos\n{}\nisready\n", line);
            long_inputs.push((format!("{} x then ' {}' repeated to {} bytes", j, word, line.len()), input.into_bytes()));
        }
    }
    for bin in [BIN_ON, BIN_OFF] {
        let results = run_parallel(long_inputs.len(), |i| run_raw(bin, &long_inputs[i].1, Duration::from_secs(10)));
        for (i, (out, code, timed_out)) in results.iter().enumerate() {
            lifecycle_runs.fetch_add(1, Ordering::Relaxed);
            let n = out.matches("readyok").count();
            if *timed_out || code.is_none() || *code == Some(101) || n != 1 {
                rep.fail("C17", "long-unknown-line-not-ignored-as-one-line", format!("uci / position startpos / <{}> / isready / end of input on {}: {} readyok (1 expected), exit {:?}, killed {}", long_inputs[i].0, bin, n, code, timed_out), J::obj().set("kind", J::s("c17-long-line")).set("input", J::s(&format!("uci\\nposition startpos\\n<{}>\\nisready\\n", long_inputs[i].0))).set("binary", J::s(bin)));
            }
        }
    }
    rep.add("long_unknown_lines_every_cut_offset_modulo_the_word_period", (long_inputs.len() * 2) as u64);
    // reads that FAIL (not end of file): standard input is the master end of a pseudo-terminal whose slave end
    // is closed (tools/pty_close.py): the process must end, whatever its status, instead of reading on for ever
    for bin in [BIN_ON, BIN_OFF] {
        let dir = scratch_dir();
        let out = Command::new("python3").args(["/verif/tools/pty_close.py", bin, dir.to_str().unwrap_or("/tmp")]).output();
        let _ = std::fs::remove_dir_all(&dir);
        match out {
            Ok(o) if o.status.code() == Some(0) => {
                lifecycle_runs.fetch_add(1, Ordering::Relaxed);
            }
            Ok(o) if o.status.code() == Some(1) => {
                lifecycle_runs.fetch_add(1, Ordering::Relaxed);
                rep.fail("C17", "read-error-on-standard-input-leaves-the-process-running", format!("{}: standard input is a pseudo-terminal whose other end was closed (reads fail with EIO): {}", bin, String::from_utf8_lossy(&o.stdout).trim()), J::obj().set("kind", J::s("c17-pty")).set("command", J::s(&format!("python3 /verif/tools/pty_close.py {} <dir>", bin))));
            }
            other => rep.note(format!("the pseudo-terminal experiment could not be run ({:?}): not part of this run", other.map(|o| o.status.code()))),
        }
    }
    rep.add("sessions_with_a_garbage_line", garbage_runs.load(Ordering::Relaxed));
    rep.add("isready_answered_with_readyok", readyoks.load(Ordering::Relaxed));
    rep.add("lifecycle_runs_quit_or_end_of_input", lifecycle_runs.load(Ordering::Relaxed));
    rep.sample(J::obj().set("session", J::strs(&["position startpos", "xyzzy 1 2 3", "go", "isready"])).set("checked", J::s("no output for the unknown line, state unchanged across it, same replies as without it, readyok")));
    rep.sample(J::obj().set("session", J::strs(&["position startpos", "go wtime 100000 ..."])).set("end", J::s("stdin closed directly after go")).set("checked", J::s("process exits within 3 s")));
    rep.assume("a process still alive 6 s after its input was closed (5 s after quit) is spinning; the limit is load-tolerant on this machine (sessions take milliseconds)");
    let rule = format!("every session of length <= {} over 9 well-formed commands (both values of the advertised logging option included); each of {} unknown/garbage lines inserted at every position of every such session; quit and end-of-input after every session on the hooks-on binary and end-of-input on the hooks-off binary", l, GARBAGE.len());
    let n = garbage_runs.load(Ordering::Relaxed) + lifecycle_runs.load(Ordering::Relaxed) + sessions.len() as u64;
    rep.finish(sessions.len() as u64, n, lifecycle_runs.load(Ordering::Relaxed) / 3, true, &rule)
}

// ================================================================================================ session parts of other properties

/// C10: all ordered pairs and triples of position commands in one session: the record the search
/// receives equals the one a fresh engine holds after the last command alone.
pub fn c10_sessions(rep: &Report) -> (u64, u64) {
    require_binaries();
    let cmds: Vec<&str> = vec![
        POSITIONS[0],
        POSITIONS[1],
        POSITIONS[4],
        POSITIONS[5],
        "position fen 7k/8/8/8/8/8/R7/K7 w - - 0 1",
        "position fen 7k/8/8/8/8/8/R7/K7 w - - 0 1 moves a2b2 h8g8 b2a2 g8h8",
        "position startpos moves e2e4",
        "position fen 8/8/k7/p7/P7/K7/8/8 w - - 0 1 moves a3b3 a6b6 b3a3 b6a6 a3b3 a6b6",
    ];
    let alone: Vec<Outcome> = run_parallel(cmds.len(), |i| run_session(&[c(cmds[i]), c("go")], &default_opts()));
    if alone.len() != cmds.len() || too_many_hangs() {
        rep.fail("C08", "session-hangs", "position + go sessions had to be killed".to_string(), session_json(&[c(cmds[0]), c("go")]));
        return (0, 0);
    }
    let mut sessions: Vec<Vec<usize>> = Vec::new();
    for a in 0..cmds.len() {
        for b in 0..cmds.len() {
            sessions.push(vec![a, b]);
            if !rep.quick() || (a + b) % 2 == 0 {
                for d in 0..cmds.len() {
                    sessions.push(vec![a, b, d]);
                }
            }
        }
    }
    let total_cmds = AtomicU64::new(0);
    run_parallel(sessions.len(), |i| {
        let mut s: Vec<Cmd> = sessions[i].iter().map(|x| c(cmds[*x])).collect();
        // a search in between must not leak either
        if i % 3 == 0 {
            s.insert(1, c("go"));
        }
        s.push(c("go"));
        total_cmds.fetch_add(s.len() as u64, Ordering::Relaxed);
        let o = run_session(&s, &default_opts());
        let want = &alone[*sessions[i].last().unwrap()];
        if o.timed_out || o.searches.is_empty() {
            rep.fail("C08", "session-hangs", format!("{:?}", s.iter().map(|c| c.line.clone()).collect::<Vec<_>>()), session_json(&s));
            return;
        }
        if o.searches.last() != want.searches.last() {
            rep.fail("C10", "record-carries-over-between-position-commands", format!("after {:?} the search receives a board/record different from the one after the last position command alone", s.iter().map(|c| c.line.clone()).collect::<Vec<_>>()), session_json(&s));
        }
    });
    // every go of a session, not only the one after a position command: the record the search receives is the
    // loop's own record at that moment (go does not change it), so a second or third go in a row, or one after
    // isready / ucinewgame, searches with the full history of the game
    let mut follow: Vec<Vec<Cmd>> = Vec::new();
    for p in &cmds {
        follow.push(vec![c(p), c("go"), c("go")]);
        follow.push(vec![c(p), c("go"), c("go"), c("go")]);
        follow.push(vec![c(p), c("go"), c("isready"), c("go")]);
        follow.push(vec![c(p), c("isready"), c("go"), c("ucinewgame"), c("go")]);
        follow.push(vec![c(p), go(GO_TIMED, 40), go(GO_TIMED, 3), c("go")]);
    }
    let extra_cmds = AtomicU64::new(0);
    run_parallel(follow.len(), |i| {
        let s = &follow[i];
        extra_cmds.fetch_add(s.len() as u64, Ordering::Relaxed);
        let o = run_session(s, &default_opts());
        if o.timed_out || o.states.len() != s.len() {
            rep.fail("C08", "session-hangs", format!("{:?}", s.iter().map(|c| c.line.clone()).collect::<Vec<_>>()), session_json(s));
            return;
        }
        let gos = s.iter().filter(|c| is_go(&c.line)).count();
        if o.searches.len() != gos {
            return; // a go on a finished game starts no search: nothing to align
        }
        let table_of = |l: &str| l.split(" table=").nth(1).unwrap_or("").to_string();
        let mut gi = 0;
        for (ci, cmd) in s.iter().enumerate() {
            if !is_go(&cmd.line) {
                continue;
            }
            let before = if ci == 0 { "[]".to_string() } else { table_of(&o.states[ci - 1]) };
            let got = table_of(&o.searches[gi]);
            if got != before {
                rep.fail("C10", &format!("go-number-{}-searches-with-another-record-than-the-loop-holds", gi + 1), format!("session {:?}: go #{} received the record {} while the loop holds {}", s.iter().map(|c| c.line.clone()).collect::<Vec<_>>(), gi + 1, got, before), session_json(s));
            }
            gi += 1;
        }
    });
    ((sessions.len() + follow.len()) as u64, total_cmds.load(Ordering::Relaxed) + extra_cmds.load(Ordering::Relaxed))
}

/// the loop's state dump after the last command of a session against the oracle's position
fn compare_loop_state(rep: &Report, s: &[Cmd], o: &Outcome, want: &Pos, h: &crate::zobrist::ZobristHasher) {
    let lines: Vec<String> = s.iter().map(|c| if c.line.len() > 200 { format!("{}… ({} bytes)", &c.line[..200], c.line.len()) } else { c.line.clone() }).collect();
    let st = last_state(o);
    let field = |name: &str| -> String { st.split(' ').find_map(|t| t.strip_prefix(&format!("{}=", name)).map(|x| x.to_string())).unwrap_or_default() };
    let mut sq = String::new();
    for r in (0..8).rev() {
        for f in 0..8 {
            let p = want.b[(r * 8 + f) as usize];
            sq.push(if p == 0 { '.' } else { rules::piece_char(p) });
        }
    }
    let rights = format!("{}{}{}{}", if want.rights & rules::WK != 0 { "K" } else { "-" }, if want.rights & rules::WQ != 0 { "Q" } else { "-" }, if want.rights & rules::BK != 0 { "k" } else { "-" }, if want.rights & rules::BQ != 0 { "q" } else { "-" });
    let ep = want.ep.map(|e| { let p = crate::bridge::point_of_sq(e); format!("{}.{}", p.0, p.1) }).unwrap_or("-".into());
    let key = crate::bridge::scratch_key(want, h).to_string();
    let stm = if want.stm == rules::WHITE { "w" } else { "b" };
    let mut diffs = Vec::new();
    for (name, w) in [("sq", sq.as_str()), ("stm", stm), ("rights", rights.as_str()), ("ep", ep.as_str()), ("key", key.as_str())] {
        if field(name) != w {
            diffs.push(format!("{} is {} but the rules give {}", name, field(name), w));
        }
    }
    if !diffs.is_empty() {
        let context = if s.len() == 1 { "alone".to_string() } else { format!("after-{}", s[s.len() - 2].line.split(' ').next().unwrap_or("")) };
        rep.fail("C04", &format!("position-command-in-session/{}", context), format!("session {:?}: after the last position command {}", lines, diffs.join("; ")), session_json(s));
    }
}

/// A long legal game from the start position: pieces shuffle without captures or pawn moves, each ply going
/// to the least-visited position available (so no position recurs often), until the move list reaches
/// `bytes` bytes. Built with the rules oracle only.
pub fn long_game(bytes: usize) -> String {
    let mut pos = Pos::from_fen("rnbqkbnr/pppppppp/8/8/8/8/PPPPPPPP/RNBQKBNR w KQkq - 0 1").unwrap();
    // open the position a little so that more than the knights can move
    let mut line = String::from("position startpos moves");
    let mut seen: std::collections::HashMap<u128, u32> = std::collections::HashMap::new();
    for m in ["e2e3", "e7e6", "d2d3", "d7d6", "a2a4", "a7a5", "h2h4", "h7h5"] {
        let mv = Mv::from_uci(m).unwrap();
        pos = pos.make(&mv);
        line.push(' ');
        line.push_str(m);
    }
    while line.len() < bytes {
        let mut best: Option<(u32, Mv, Pos)> = None;
        for mv in pos.legal_moves() {
            let piece = pos.b[mv.from as usize];
            if pos.is_capture(&mv) || rules::kind_of(piece) == rules::P || rules::kind_of(piece) == rules::K || pos.is_castle(&mv) {
                continue;
            }
            let nx = pos.make(&mv);
            if nx.in_check(nx.stm) || nx.legal_moves().is_empty() {
                continue; // nobody is ever in check, so a quiet piece move always exists
            }
            let n = *seen.get(&crate::bridge::fingerprint(&nx, 0)).unwrap_or(&0);
            if best.as_ref().map(|b| n < b.0).unwrap_or(true) {
                best = Some((n, mv, nx));
            }
        }
        let (n, mv, nx) = best.expect("long_game: no quiet move");
        if n > 100 {
            crate::report::machinery_error("long_game: a position would recur more than 100 times");
        }
        *seen.entry(crate::bridge::fingerprint(&nx, 0)).or_insert(0) += 1;
        line.push(' ');
        line.push_str(&mv.uci());
        pos = nx;
    }
    line
}

/// Position commands longer than any I/O buffer (8 KiB, 16 KiB, 64 KiB pipes and readers): the game must be
/// taken in whole, alone and after another game.
pub fn c04_long_lines(rep: &Report, sizes: &[usize]) -> (u64, u64) {
    require_binaries();
    let h = crate::zobrist::ZobristHasher::create_zobrist_hasher();
    let games: Vec<String> = sizes.iter().map(|&b| long_game(b)).collect();
    let mut sessions: Vec<(Vec<Cmd>, usize)> = Vec::new();
    for (i, g) in games.iter().enumerate() {
        if pos_of_command(g).is_none() {
            crate::report::machinery_error("the long game is not legal by the oracle");
        }
        sessions.push((vec![c(g)], i));
        sessions.push((vec![c(POSITIONS[3]), c("go"), c(g)], i));
        sessions.push((vec![c(g), c("isready"), c(g)], i));
    }
    let total = AtomicU64::new(0);
    run_parallel(sessions.len(), |j| {
        let (s, gi) = &sessions[j];
        total.fetch_add(s.len() as u64, Ordering::Relaxed);
        let mut opts = default_opts();
        opts.timeout = Duration::from_secs(20);
        let o = run_session(s, &opts);
        if o.timed_out || o.states.len() != s.len() {
            rep.fail("C04", "long-position-line-not-handled-as-one-command", format!("a position command of {} bytes: {} of {} commands handled, exit {:?}", games[*gi].len(), o.states.len(), s.len(), o.exit_code), J::obj().set("kind", J::s("c04-long")).set("bytes", J::i(games[*gi].len() as i64)));
            return;
        }
        let want = pos_of_command(&games[*gi]).unwrap();
        compare_loop_state(rep, s, &o, &want, &h);
    });
    (sessions.len() as u64, total.load(Ordering::Relaxed))
}

/// C04 in session context: whatever preceded it in the session, a position command leaves the engine
/// holding exactly the position the rules give (read from the loop state dump).
pub fn c04_sessions(rep: &Report, commands: &[String]) -> (u64, u64) {
    require_binaries();
    let h = crate::zobrist::ZobristHasher::create_zobrist_hasher();
    for p in commands {
        if pos_of_command(p).is_none() {
            crate::report::machinery_error(&format!("the C04 session list contains an illegal game: {}", p));
        }
    }
    let others = [POSITIONS[3], POSITIONS[1]];
    let mut sessions: Vec<(Vec<Cmd>, usize)> = Vec::new(); // (session, index of the command under test)
    for (i, p) in commands.iter().enumerate() {
        let p = c(p);
        sessions.push((vec![p.clone()], i));
        sessions.push((vec![p.clone(), c("go"), p.clone()], i));
        sessions.push((vec![p.clone(), p.clone()], i));
        sessions.push((vec![p.clone(), go(GO_TIMED, 25), c("ucinewgame"), p.clone()], i));
        sessions.push((vec![c(others[i % 2]), c("go"), p.clone()], i));
        sessions.push((vec![p.clone(), c("go"), c(others[(i + 1) % 2]), c("go"), p.clone()], i));
    }
    // the game continued the way a GUI does: P, go (engine plays m), then P + m + reply, then the reply taken
    // back and replaced; the command under test is the last one
    let mut commands: Vec<String> = commands.to_vec();
    let firsts: Vec<Outcome> = run_parallel(commands.len(), |i| run_session(&[c(&commands[i]), c("go")], &default_opts()));
    if firsts.len() == commands.len() {
        let n0 = commands.len();
        for i in 0..n0 {
            let s0 = vec![c(&commands[i]), c("go")];
            let d = dynamic_cmds(&s0, &firsts[i]);
            if d.len() == 2 {
                for (a, b) in [(0usize, 1usize), (1, 0)] {
                    commands.push(d[b].line.clone());
                    let ci = commands.len() - 1;
                    sessions.push((vec![s0[0].clone(), s0[1].clone(), d[a].clone(), d[b].clone()], ci));
                    sessions.push((vec![s0[0].clone(), s0[1].clone(), c(others[i % 2]), d[b].clone()], ci));
                    sessions.push((vec![s0[0].clone(), s0[1].clone(), d[a].clone(), c("go"), d[b].clone()], ci));
                }
            }
        }
    }
    let commands = &commands;
    let total = AtomicU64::new(0);
    run_parallel(sessions.len(), |j| {
        let (s, ci) = &sessions[j];
        total.fetch_add(s.len() as u64, Ordering::Relaxed);
        let o = run_session(s, &default_opts());
        let lines: Vec<String> = s.iter().map(|c| c.line.clone()).collect();
        if o.timed_out || o.states.len() != s.len() {
            rep.fail("C08", "session-hangs", format!("{:?}", lines), session_json(s));
            return;
        }
        let want = match pos_of_command(&commands[*ci]) {
            Some(p) => p,
            None => return,
        };
        compare_loop_state(rep, s, &o, &want, &h);
    });
    (sessions.len() as u64, total.load(Ordering::Relaxed))
}

/// C15: the command-line front end prints the error and exits normally
pub fn c15_cli(rejected: &[String], rep: &Report) -> u64 {
    require_binaries();
    let mut inputs: Vec<String> = rejected.iter().filter(|s| !s.contains('\0')).cloned().collect();
    let skipped_nul = rejected.len() - inputs.len();
    let cap = if rep.quick() { 400 } else { 2000 };
    // the rejected strings arrive in thread order: pick the same ones every run
    inputs.sort();
    inputs.dedup();
    if inputs.len() > cap {
        let stride = inputs.len() / cap;
        inputs = inputs.into_iter().step_by(stride.max(1)).take(cap).collect();
    }
    for extra in ["", " ", "x", "8/8/8/8/8/8/8/8 w - - 0", "4k3/8/8/8/8/8/8/4K3 w - ex 0 1", "4k3/8/8/8/8/8/8/4K3 w - é 0 1", "4k3/8/8/8/8/8/8/4K3 w - - 0 99999999999"] {
        inputs.push(extra.to_string());
    }
    // what the command line does to its argument before the loader sees it (trimming, unquoting, splitting)
    // has its own inputs: every string of <= 2 characters over an alphabet with all quote characters, blanks,
    // separators and multi-byte characters, and a valid FEN with every such character before, after and around it
    let cli_alphabet: Vec<char> = "\"'`“”‘’«» \t-/\\=,;w8Kké–€\u{1F600}\u{00A0}\u{2028}".chars().collect();
    let valid = "4k3/8/8/8/8/8/8/4K3 w - - 0 1";
    let before = inputs.len();
    for &a in &cli_alphabet {
        inputs.push(a.to_string());
        inputs.push(format!("{}{}", a, valid));
        inputs.push(format!("{}{}", valid, a));
        for &b in &cli_alphabet {
            inputs.push(format!("{}{}", a, b));
            inputs.push(format!("{}{}{}", a, valid, b));
        }
    }
    rep.add("cli_argument_shapes_quotes_blanks_multibyte", (inputs.len() - before) as u64);
    let ok = AtomicU64::new(0);
    run_parallel(inputs.len(), |i| {
        let dir = scratch_dir();
        // --fen=<value> so that a value starting with '-' is not taken for an option by the argument parser
        let out = Command::new(BIN_OFF).args([&format!("--fen={}", inputs[i]), "-T", "-d", "1"]).current_dir(&dir).stdin(Stdio::null()).output();
        let _ = std::fs::remove_dir_all(&dir);
        match out {
            Err(e) => crate::report::machinery_error(&format!("cannot run the binary: {}", e)),
            Ok(o) => {
                // the error may be printed on either stream; a panic message on stderr comes with status 101
                let stdout = format!("{}{}", String::from_utf8_lossy(&o.stdout), String::from_utf8_lossy(&o.stderr));
                let accepted = stdout.contains("Searched to a depth");
                if o.status.code() != Some(0) || stdout.trim().is_empty() {
                    rep.fail("C15", "cli-does-not-exit-normally", format!("--fen {:?}: exit status {:?}, stdout {:?}, stderr {:?}", inputs[i], o.status.code(), stdout.chars().take(200).collect::<String>(), String::from_utf8_lossy(&o.stderr).chars().take(200).collect::<String>()), J::obj().set("kind", J::s("c15-cli")).set("args", J::strs(&[&format!("--fen={}", inputs[i]), "-T", "-d", "1"])));
                } else {
                    ok.fetch_add(1, Ordering::Relaxed);
                    let _ = accepted;
                }
            }
        }
    });
    rep.add("cli_runs_with_bad_fen", inputs.len() as u64);
    if skipped_nul > 0 {
        rep.note(format!("{} rejected strings contain NUL and cannot be passed as a command-line argument (observation)", skipped_nul));
    }
    ok.load(Ordering::Relaxed)
}

/// C03 (c) and (d), C08 session part: go parameter sequences and sequences of go without position.
pub fn c03_sessions(rep: &Report, prop: &str) -> (u64, u64) {
    require_binaries();
    let quick = rep.quick();
    let mut sessions: Vec<Vec<Cmd>> = Vec::new();
    // (c) go parameter combinations: all token sequences up to 3 parameters from the alphabet, each on two roots
    let keys = ["wtime", "btime", "winc", "binc", "movestogo"];
    let vals = ["-1000000", "-1", "0", "1", "99", "100", "101", "5000", "1000000000"];
    let unknown = ["infinite", "depth 5", "ponder", "searchmoves e2e4", "movetime 100"];
    let mut gos: Vec<String> = vec!["go".to_string()];
    for k in keys {
        for v in vals {
            if k == "movestogo" && (v.starts_with('-') || v == "0") {
                continue; // outside the quantifier (movestogo >= 1)
            }
            gos.push(format!("go {} {}", k, v));
        }
    }
    for v1 in vals {
        for v2 in ["-1", "0", "150", "1000000000"] {
            gos.push(format!("go wtime {} btime {} winc {} binc {}", v1, v1, v2, v2));
            gos.push(format!("go binc {} winc {} movestogo 1 btime {} wtime {}", v2, v2, v1, v1));
        }
    }
    for u in unknown {
        gos.push(format!("go {}", u));
        gos.push(format!("go {} wtime 200 btime 200", u));
        gos.push(format!("go wtime 200 {} btime 200 winc 0", u));
    }
    let roots = [POSITIONS[0], POSITIONS[3], "position fen 1n2k2r/P7/8/8/8/8/8/4K3 w k - 0 1", "position fen 4k3/8/8/8/8/8/p7/1N2K2R b K - 0 1"];
    for (gi, g) in gos.iter().enumerate() {
        for (ri, r) in roots.iter().enumerate() {
            if quick && (gi + ri) % 2 == 1 {
                continue;
            }
            for k in [0u64, 7, 60] {
                sessions.push(vec![c(r), go(g, k), c("isready")]);
            }
        }
    }
    // (d) sequences of go without a new position, expiry vectors from {0,1,5,40}^n
    let ks = [0u64, 1, 5, 40];
    let seq_roots = ["position fen k7/8/1K6/8/8/8/8/7R w - - 0 1", "position fen 6k1/5ppp/8/8/8/8/8/R3K3 w Q - 0 1", POSITIONS[0], POSITIONS[2], POSITIONS[3], "position fen 1n2k2r/P7/8/8/8/8/8/4K3 w k - 0 1", "position fen 4k3/8/8/8/8/8/p7/1N2K2R b K - 0 1", "position fen r3k2r/8/8/8/8/8/8/R3K2R w KQkq - 0 1", "position fen 8/8/8/8/8/5k2/7p/7K b - - 0 1"];
    for r in seq_roots {
        for n in 1..=(if quick { 3 } else { 4 }) {
            let mut idx = vec![0usize; n];
            loop {
                let mut s = vec![c(r)];
                for i in 0..n {
                    s.push(go(GO_TIMED, ks[idx[i]]));
                }
                s.push(c("isready"));
                sessions.push(s);
                let mut p = 0;
                while p < n {
                    idx[p] += 1;
                    if idx[p] < ks.len() {
                        break;
                    }
                    idx[p] = 0;
                    p += 1;
                }
                if p == n {
                    break;
                }
            }
        }
    }
    // a first go that gets well into its second iteration (the board it leaves behind carries the marks of a
    // principal variation), then a second one with no or next to no time, on roots where the reply can castle
    // or capture en passant (successors built by copying the root board)
    for r in seq_roots.iter().chain(["position fen r3k2r/pppppppp/8/8/3q4/4P3/PPPP1PPP/R3K2R w KQkq - 0 1", "position fen r3k2r/p1ppqpb1/bn2pnp1/3PN3/1p2P3/2N2Q1p/PPPBBPPP/R3K2R w KQkq - 0 1", "position fen 4k3/8/8/8/1p6/8/P7/4K3 w - - 0 1", "position fen 4k3/p7/8/1P6/8/8/8/4K3 b - - 0 1"].iter()) {
        for big in [400u64, 3000] {
            for second in [Some(0u64), Some(1), Some(3), None] {
                let mut s = vec![c(r), go(GO_TIMED, big)];
                match second {
                    Some(k) => s.push(go(GO_TIMED, k)),
                    None => s.push(c("go")),
                }
                s.push(c("isready"));
                sessions.push(s);
            }
        }
    }
    // positions given as FEN/startpos plus a move list with special moves (castling by both sides, corner-to-corner
    // rook captures, en passant, promotions), then go: the answer must be legal in the position the rules give
    for p in [
        "position fen r3k2r/8/8/8/8/8/8/R3K2R w KQkq - 0 1 moves a1a8 e8e7",
        "position fen r3k2r/8/8/8/8/8/8/R3K2R w KQkq - 0 1 moves h1h8 e8d7 h8h1",
        "position fen r3k2r/8/8/8/8/8/8/R3K2R b KQkq - 0 1 moves a8a1 e1e2 a1a8",
        "position fen r3k2r/8/8/8/8/8/8/R3K2R b KQkq - 0 1 moves h8h1 e1d2 h1h8 d2d1",
        "position fen r3k2r/8/8/8/8/8/8/R3K2R w KQkq - 0 1 moves e1g1 e8c8",
        "position fen r3k2r/8/8/8/8/8/8/R3K2R w KQkq - 0 1 moves e1c1 e8g8",
        "position fen 4k3/2p1p3/8/3P4/3p4/8/2P1P3/4K3 w - - 0 1 moves e2e4 d4e3 c2c4",
        "position fen r3k3/1P6/8/8/8/8/1p6/R3K3 w Qq - 0 1 moves b7a8n b2a1n",
        "position fen r3k2r/8/8/8/8/8/8/R3K2R b KQkq - 0 1 moves e8c8 a1a7",
        "position startpos moves a2a4 b7b5 a4b5 a7a6 b5a6 c8b7 a6b7 a8a1",
    ] {
        for k in [0u64, 30, 300] {
            sessions.push(vec![c(p), go(GO_TIMED, k), c("isready")]);
        }
        sessions.push(vec![c(p), c("go"), c("isready")]);
    }
    // C08: terminal roots, then the engine must still serve
    for t in ["position fen 7k/6Q1/6K1/8/8/8/8/8 b - - 0 1", "position fen 7k/5Q2/6K1/8/8/8/8/8 b - - 0 1", "position startpos moves f2f3 e7e5 g2g4 d8h4"] {
        for g in ["go", GO_TIMED, "go wtime 1 btime 1", "go movestogo 1 wtime 100000 btime 100000"] {
            sessions.push(vec![c(t), go(g, 10), c("isready"), c(POSITIONS[0]), go(GO_TIMED, 10), c("isready")]);
        }
    }
    // odd clock values on the UNHOOKED binary with the real clock: the planned slice must be small, so the answer
    // must come at once (a slice that wraps around or explodes shows as a missing bestmove)
    let odd: Vec<Vec<Cmd>> = ["go wtime -50 btime -50 winc 1000 binc 1000", "go wtime -1000000 btime -1000000 winc 1 binc 1", "go wtime 0 btime 0 winc 500 binc 500", "go wtime 50 btime 50 winc 10000 binc 10000", "go wtime -1 btime -1", "go wtime 100 btime 100 winc -5 binc -5", "go wtime 101 btime 101 winc 0 binc 0", "go wtime 99 btime 99 movestogo 1", "go winc 300 binc 300", "go wtime -170141183460469231731687303715884105728 btime 5 winc 7 binc 7"]
        .iter()
        .map(|g| vec![c(POSITIONS[3]), c(g), c("isready")])
        .collect();
    {
        let results = run_parallel(odd.len(), |i| {
            let mut opts = default_opts();
            opts.bin = BIN_OFF;
            opts.hooks = false;
            opts.timeout = Duration::from_secs(6);
            run_session(&odd[i], &opts)
        });
        for (i, o) in results.iter().enumerate() {
            let lines: Vec<String> = odd[i].iter().map(|c| c.line.clone()).collect();
            let best = o.stdout.iter().filter(|l| l.starts_with("bestmove")).count();
            if o.timed_out || best != 1 || o.stdout.last().map(|l| l.as_str()) != Some("readyok") {
                rep.fail(prop, "odd-clock-values-not-answered", format!("{:?} on the unhooked binary (real clock): {} bestmove lines, timed out: {}, last line {:?}", lines, best, o.timed_out, o.stdout.last()), session_json(&odd[i]).set("binary", J::s(BIN_OFF)));
            }
        }
        rep.add("real_clock_sessions_with_odd_clock_values", odd.len() as u64);
    }
    // every position command of the sweep must describe a legal game (a wrong test input is not a verdict)
    for s in &sessions {
        for cmd in s {
            if cmd.line.starts_with("position") && pos_of_command(&cmd.line).is_none() {
                crate::report::machinery_error(&format!("the session sweep contains an illegal game: {}", cmd.line));
            }
        }
    }
    let cmds_total = AtomicU64::new(0);
    let bestmoves = AtomicU64::new(0);
    let promos = AtomicU64::new(0);
    let nulls = AtomicU64::new(0);
    run_parallel(sessions.len(), |i| {
        let s = &sessions[i];
        cmds_total.fetch_add(s.len() as u64, Ordering::Relaxed);
        let o = run_session(s, &default_opts());
        let lines: Vec<String> = s.iter().map(|c| c.line.clone()).collect();
        if o.timed_out || o.states.len() != s.len() {
            let terminal = lines[0].contains("7k/6Q1") || lines[0].contains("7k/5Q2") || lines[0].contains("d8h4");
            rep.fail(if terminal { "C08" } else { prop }, if terminal { "no-answer/root-without-legal-move" } else { "session-hangs-or-dies" }, format!("{:?}: handled {} of {} commands, timed out {}, exit {:?}", lines, o.states.len(), s.len(), o.timed_out, o.exit_code), session_json(s));
            return;
        }
        // replay the answers with the oracle
        let mut pos: Option<Pos> = None;
        let mut out_iter = replies(&o).into_iter();
        for cmd in s {
            if cmd.line.starts_with("position") {
                pos = pos_of_command(&cmd.line);
            } else if is_go(&cmd.line) {
                let mut best: Option<String> = None;
                for l in out_iter.by_ref() {
                    if l.starts_with("bestmove") {
                        best = Some(l);
                        break;
                    } else if !l.starts_with("info") {
                        rep.fail(prop, "unexpected-line-before-bestmove", format!("{:?}: '{}'", lines, l), session_json(s));
                    }
                }
                let p = match pos {
                    Some(p) => p,
                    None => break,
                };
                let legal = p.legal_moves();
                match best {
                    None => {
                        rep.fail(if legal.is_empty() { "C08" } else { prop }, "go-without-bestmove", format!("{:?}: no bestmove for '{}'", lines, cmd.line), session_json(s));
                        break;
                    }
                    Some(b) => {
                        bestmoves.fetch_add(1, Ordering::Relaxed);
                        let text = bestmove_of(&b).unwrap_or_default();
                        if legal.is_empty() {
                            nulls.fetch_add(1, Ordering::Relaxed);
                            if text != "0000" && text != "(none)" {
                                rep.fail("C08", "terminal-root-answer-not-null-move", format!("{:?}: '{}'", lines, b), session_json(s));
                            }
                            continue;
                        }
                        match Mv::from_uci(&text) {
                            Some(m) if legal.contains(&m) => {
                                if m.promo != 0 {
                                    promos.fetch_add(1, Ordering::Relaxed);
                                }
                                pos = Some(p.make(&m));
                            }
                            _ => {
                                rep.fail(prop, "bestmove-illegal-or-malformed", format!("{:?}: '{}' is not a legal move of {} in UCI notation", lines, b, p.fen()), session_json(s));
                                break;
                            }
                        }
                    }
                }
            } else if cmd.line == "isready" {
                match out_iter.next() {
                    Some(l) if l == "readyok" => {}
                    other => rep.fail("C08", "isready-not-answered-after-go", format!("{:?}: expected readyok, got {:?}", lines, other), session_json(s)),
                }
            }
        }
        if out_iter.next().is_some() {
            rep.fail(prop, "more-than-one-bestmove-or-stray-output", format!("{:?}: surplus output {:?}", lines, replies(&o)), session_json(s));
        }
    });
    rep.add("go_sessions", sessions.len() as u64);
    rep.add("bestmoves_checked_in_sessions", bestmoves.load(Ordering::Relaxed));
    rep.add("promotion_answers_in_sessions", promos.load(Ordering::Relaxed));
    rep.add("null_move_answers_on_finished_games", nulls.load(Ordering::Relaxed));
    (sessions.len() as u64, cmds_total.load(Ordering::Relaxed))
}

/// The oracle's position after a position command
pub fn pos_of_command(line: &str) -> Option<Pos> {
    let t: Vec<&str> = line.split_whitespace().collect();
    let mut pos = if t.get(1) == Some(&"fen") { Pos::from_fen(&t[2..t.len().min(8)].join(" "))? } else { Pos::from_fen("rnbqkbnr/pppppppp/8/8/8/8/PPPPPPPP/RNBQKBNR w KQkq - 0 1")? };
    if let Some(i) = t.iter().position(|x| *x == "moves") {
        for m in &t[i + 1..] {
            let mv = Mv::from_uci(m)?;
            if !pos.legal_moves().contains(&mv) {
                return None;
            }
            pos = pos.make(&mv);
        }
    }
    Some(pos)
}

/// The engine started with each of its command-line options (they are for the bench and self-play modes; in
/// UCI mode they must change nothing): `-d k` for every accepted k, `--depth=k`, `-S`, `-f <valid FEN>` and
/// pairs of them. The same short session must give exactly the replies of an engine started without options.
pub fn startup_option_sessions(rep: &Report) -> u64 {
    require_binaries();
    let session = vec![c(POSITIONS[0]), go(GO_TIMED, 60), c("isready"), c(POSITIONS[3]), c("go"), c("isready"), c(POSITIONS[2]), go(GO_TIMED, 25), c("isready")];
    let mut arg_sets: Vec<Vec<String>> = Vec::new();
    for k in (0..=12).chain([30, 50, 97, 98]) {
        arg_sets.push(vec!["-d".to_string(), k.to_string()]);
    }
    for k in [0, 1, 2, 6] {
        arg_sets.push(vec![format!("--depth={}", k)]);
        arg_sets.push(vec!["-S".to_string(), "-d".to_string(), k.to_string()]);
        arg_sets.push(vec!["-f".to_string(), "4k3/8/8/8/8/8/8/4K2R w K - 0 1".to_string(), "-d".to_string(), k.to_string()]);
    }
    arg_sets.push(vec!["-S".to_string()]);
    arg_sets.push(vec!["--simple-print".to_string()]);
    arg_sets.push(vec!["-f".to_string(), "8/8/8/8/8/5k2/7p/7K b - - 0 1".to_string()]);
    arg_sets.push(vec!["--fen=7k/5Q2/6K1/8/8/8/8/8 b - - 0 1".to_string()]);
    let base = run_session(&session, &default_opts());
    if base.timed_out || base.states.len() != session.len() {
        rep.fail("C08", "session-hangs", "the option-free baseline session had to be killed".to_string(), session_json(&session));
        return 0;
    }
    let base_replies = replies(&base);
    run_parallel(arg_sets.len(), |i| {
        let mut opts = default_opts();
        opts.args = arg_sets[i].clone();
        let o = run_session(&session, &opts);
        let case = session_json(&session).set("command_line_arguments", J::strs(&arg_sets[i].iter().map(|s| s.as_str()).collect::<Vec<_>>()));
        let answered = o.stdout.iter().filter(|l| l.starts_with("bestmove")).count();
        if o.timed_out || answered != 3 || o.states.len() != session.len() {
            rep.fail("C08", "go-not-answered/engine-started-with-options", format!("started with {:?}: {} of 3 go commands answered, {} of {} commands handled, killed {}", arg_sets[i], answered, o.states.len(), session.len(), o.timed_out), case.clone());
            rep.fail("C16", "replies-depend-on-start-up-options", format!("started with {:?}: {} of 3 go commands answered", arg_sets[i], answered), case);
            return;
        }
        let r = replies(&o);
        if r != base_replies {
            let first = r.iter().zip(base_replies.iter()).position(|(a, b)| a != b).unwrap_or(r.len().min(base_replies.len()));
            rep.fail("C16", "replies-depend-on-start-up-options", format!("started with {:?}: reply {} is {:?}, without options it is {:?}", arg_sets[i], first + 1, r.get(first), base_replies.get(first)), case);
        }
    });
    rep.add("sessions_on_an_engine_started_with_command_line_options", arg_sets.len() as u64);
    arg_sets.len() as u64
}

/// Positions in which the side to move has exactly ONE legal move, by class of that move (en passant,
/// promotion, king move, ...), taken from the small-scope families: `go` must answer with that move — with
/// logging off and on — and the engine must serve the rest of the session.
pub fn forced_move_sessions(rep: &Report) -> u64 {
    require_binaries();
    let per_class: usize = if rep.quick() { 12 } else { 120 };
    let mut by_class: BTreeMap<String, Vec<Pos>> = BTreeMap::new();
    let mut consider = |p: &Pos| {
        let legal = p.legal_moves();
        if legal.len() != 1 {
            return;
        }
        let m = &legal[0];
        let class = if p.is_en_passant(m) {
            "en-passant"
        } else if m.promo != 0 {
            if p.is_capture(m) { "promotion-with-capture" } else { "promotion" }
        } else if rules::kind_of(p.b[m.from as usize]) == rules::K {
            if p.is_capture(m) { "king-captures" } else { "king-move" }
        } else if p.is_capture(m) {
            "capture"
        } else {
            "quiet-move"
        };
        let key = format!("{}/{}", class, if p.stm == rules::WHITE { "white" } else { "black" });
        let v = by_class.entry(key).or_default();
        if v.len() < per_class {
            v.push(*p);
        }
    };
    for c in [rules::WHITE, rules::BLACK] {
        for f in 0..8i8 {
            for side in 0..3usize {
                for p in crate::e1_posgraph::family_ep_side_thin(c, f, side, false) {
                    consider(&p);
                }
            }
            for p in crate::e1_posgraph::family_promo(c, false, f) {
                consider(&p);
            }
        }
    }
    for wk in [0u8, 7, 27, 56, 63] {
        for p in crate::e1_posgraph::family_kkx(wk..wk + 1) {
            consider(&p);
        }
    }
    let mut jobs: Vec<(String, Pos, bool)> = Vec::new();
    for (k, v) in &by_class {
        for p in v {
            for logging in [false, true] {
                jobs.push((k.clone(), *p, logging));
            }
        }
    }
    let classes: Vec<String> = by_class.iter().map(|(k, v)| format!("{} x{}", k, v.len())).collect();
    rep.note(format!("forced-move sessions: {}", classes.join(", ")));
    run_parallel(jobs.len(), |i| {
        let (class, p, logging) = &jobs[i];
        let only = p.legal_moves()[0];
        let mut s: Vec<Cmd> = Vec::new();
        if *logging {
            s.push(c("setoption name DebugLogLevel value Info"));
        }
        s.push(c(&format!("position fen {}", p.fen())));
        s.push(c("go"));
        s.push(c("isready"));
        s.push(c(POSITIONS[0]));
        s.push(go(GO_TIMED, 30));
        s.push(c("isready"));
        let o = run_session(&s, &default_opts());
        let best: Vec<String> = o.stdout.iter().filter_map(|l| bestmove_of(l)).collect();
        let readys = o.stdout.iter().filter(|l| *l == "readyok").count();
        let ctx = format!("{}{}", class, if *logging { "/logging-on" } else { "" });
        if best.first().map(|b| b.as_str()) != Some(only.uci().as_str()) {
            rep.fail("C03", &format!("only-legal-move-not-answered/{}", ctx), format!("{}: the only legal move is {}, go is answered with {:?}", p.fen(), only.uci(), best.first()), session_json(&s));
        }
        if o.timed_out || best.len() != 2 || readys != 2 || o.states.len() != s.len() {
            rep.fail("C08", &format!("not-responsive-after-a-forced-move/{}", ctx), format!("{}: after the go on this position {} of 2 bestmove and {} of 2 readyok lines arrive, {} of {} commands are handled, exit {:?}", p.fen(), best.len(), readys, o.states.len(), s.len(), o.exit_code), session_json(&s));
        }
    });
    rep.add("forced_move_sessions", jobs.len() as u64);
    jobs.len() as u64
}

/// C11 end to end: on roots with a mate in one, `go` under a clock that expires after iteration 1 has finished
/// (three expiry points per root) must be answered with a mating move — the move the I/O thread holds when it
/// answers, in the text it prints, not only the board the search sent last.
pub fn mate_in_one_sessions(rep: &Report, roots: &[(Pos, Vec<u64>)]) -> u64 {
    require_binaries();
    let jobs: Vec<(usize, u64)> = roots.iter().enumerate().flat_map(|(i, (_, ks))| ks.iter().map(move |k| (i, *k))).collect();
    run_parallel(jobs.len(), |j| {
        let (i, k) = jobs[j];
        let pos = &roots[i].0;
        let s = vec![c(&format!("position fen {}", pos.fen())), go(GO_TIMED, k), c("isready")];
        let o = run_session(&s, &default_opts());
        let best: Vec<String> = o.stdout.iter().filter_map(|l| bestmove_of(l)).collect();
        if o.timed_out || best.len() != 1 {
            rep.fail("C08", "session-hangs", format!("{}: go with expiry index {} gave {} bestmove lines", pos.fen(), k, best.len()), session_json(&s));
            return;
        }
        match Mv::from_uci(&best[0]) {
            Some(m) if pos.legal_moves().contains(&m) => {
                if !pos.make(&m).is_checkmate() {
                    rep.fail("C11", "mate-in-one-not-played/through-the-binary", format!("{}: the clock expires at consultation {} (iteration 1 has finished), the engine plays {} which does not mate", pos.fen(), k, best[0]), session_json(&s));
                }
            }
            _ => rep.fail("C03", "bestmove-illegal-or-malformed", format!("{}: '{}'", pos.fen(), best[0]), session_json(&s)),
        }
    });
    jobs.len() as u64
}

/// One step of an interactive real-time session (the way a GUI drives the engine)
pub enum Step {
    Send(String),
    Sleep(u64),
    /// wait until a new output line starting with the prefix arrives, at most this many ms
    Wait(&'static str, u64),
}

pub struct Timed {
    pub sent: Vec<(String, u128)>,
    pub out: Vec<(String, u128)>,
    /// per Wait step: Some(arrival time) or None when the line did not come in time
    pub waits: Vec<Option<u128>>,
    pub exit_code: Option<i32>,
    pub killed: bool,
}

/// Drive the unhooked binary interactively on the real clock; ends with `quit` and end of input.
pub fn run_timed(steps: &[Step], kill_at_end: bool) -> Timed {
    let dir = scratch_dir();
    let mut child = match Command::new(BIN_OFF).current_dir(&dir).stdin(Stdio::piped()).stdout(Stdio::piped()).stderr(Stdio::null()).spawn() {
        Ok(c) => c,
        Err(e) => crate::report::machinery_error(&format!("cannot start {}: {}", BIN_OFF, e)),
    };
    let t0 = Instant::now();
    let mut stdin = child.stdin.take().unwrap();
    let mut stdout = child.stdout.take().unwrap();
    let lines: std::sync::Arc<Mutex<Vec<(String, u128)>>> = std::sync::Arc::new(Mutex::new(Vec::new()));
    let l2 = lines.clone();
    let reader = std::thread::spawn(move || {
        let mut buf = Vec::new();
        let mut byte = [0u8; 4096];
        loop {
            match stdout.read(&mut byte) {
                Ok(0) | Err(_) => break,
                Ok(n) => {
                    let now = t0.elapsed().as_millis();
                    for b in &byte[..n] {
                        if *b == b'\n' {
                            l2.lock().unwrap().push((String::from_utf8_lossy(&buf).to_string(), now));
                            buf.clear();
                        } else {
                            buf.push(*b);
                        }
                    }
                }
            }
        }
    });
    let mut sent = Vec::new();
    let mut waits = Vec::new();
    let mut cursor = 0usize;
    let send = |stdin: &mut std::process::ChildStdin, l: &str, sent: &mut Vec<(String, u128)>| {
        sent.push((l.to_string(), t0.elapsed().as_millis()));
        let _ = stdin.write_all(l.as_bytes());
        let _ = stdin.write_all(b"\n");
        let _ = stdin.flush();
    };
    send(&mut stdin, "uci", &mut sent);
    for st in steps {
        match st {
            Step::Send(l) => send(&mut stdin, l, &mut sent),
            Step::Sleep(ms) => std::thread::sleep(Duration::from_millis(*ms)),
            Step::Wait(prefix, ms) => {
                let until = Instant::now() + Duration::from_millis(*ms);
                let mut found = None;
                loop {
                    {
                        let g = lines.lock().unwrap();
                        while cursor < g.len() {
                            let (l, t) = &g[cursor];
                            cursor += 1;
                            if l.starts_with(prefix) {
                                found = Some(*t);
                                break;
                            }
                        }
                    }
                    if found.is_some() || Instant::now() >= until {
                        break;
                    }
                    std::thread::sleep(Duration::from_micros(500));
                }
                waits.push(found);
            }
        }
    }
    if kill_at_end {
        let _ = child.kill();
    }
    send(&mut stdin, "quit", &mut sent);
    drop(stdin);
    let end = Instant::now() + Duration::from_secs(3);
    let mut killed = false;
    let exit_code = loop {
        match child.try_wait() {
            Ok(Some(st)) => break st.code(),
            Ok(None) => {
                if Instant::now() > end {
                    killed = true;
                    let _ = child.kill();
                    break child.wait().ok().and_then(|s| s.code());
                }
                std::thread::sleep(Duration::from_millis(1));
            }
            Err(_) => break None,
        }
    };
    let _ = reader.join();
    let _ = std::fs::remove_dir_all(&dir);
    let out = lines.lock().unwrap().clone();
    Timed { sent, out, waits, exit_code, killed }
}

/// Real-clock sessions on the unhooked binary, driven interactively (C08/C09). The virtual clock decides the
/// exhaustive part; what only the real clock shows is where the engine takes its time stamp and how it
/// compares it: slices of a second and more, idle time between commands, consecutive go commands, and
/// clocks so large that the slice overflows narrower integer types.
pub fn realclock_sessions(rep: &Report) -> u64 {
    require_binaries();
    let send = |s: &str| Step::Send(s.to_string());
    // slice = 0.8 * (wtime - 100) / movestogo
    let go200 = "go wtime 6100 btime 6100 movestogo 24"; // 200 ms
    let go1100 = "go wtime 1475 btime 1475 movestogo 1"; // 1100 ms
    let go2300 = "go wtime 2975 btime 2975 movestogo 1"; // 2300 ms
    struct Case {
        name: &'static str,
        steps: Vec<Step>,
        /// (index of the go among the sent lines, planned slice in ms or None for "must not answer in the window")
        gos: Vec<Option<u128>>,
    }
    let tol_late: u128 = 3000;
    let tol_early: u128 = 60;
    let mut cases: Vec<Case> = Vec::new();
    for (name, goline, slice) in [("slice-of-1100-ms", go1100, 1100u128), ("slice-of-2300-ms", go2300, 2300)] {
        cases.push(Case { name, steps: vec![send(POSITIONS[0]), send("isready"), Step::Wait("readyok", 3000), send(goline), Step::Wait("bestmove", (slice + tol_late + 500) as u64)], gos: vec![Some(slice)] });
    }
    for (name, idle) in [("idle-before-go-300-ms", 300u64), ("idle-before-go-700-ms", 700)] {
        cases.push(Case { name, steps: vec![send(POSITIONS[0]), send("isready"), Step::Wait("readyok", 3000), Step::Sleep(idle), send(go200), Step::Wait("bestmove", 4000)], gos: vec![Some(200)] });
        // idle between the handshake and the position command as well
        cases.push(Case { name, steps: vec![send("isready"), Step::Wait("readyok", 3000), Step::Sleep(idle), send(POSITIONS[2]), send(go200), Step::Wait("bestmove", 4000)], gos: vec![Some(200)] });
    }
    cases.push(Case { name: "two-gos-on-one-position", steps: vec![send(POSITIONS[0]), send(go200), Step::Wait("bestmove", 4000), send(go200), Step::Wait("bestmove", 4000), send(go200), Step::Wait("bestmove", 4000)], gos: vec![Some(200), Some(200), Some(200)] });
    cases.push(Case { name: "go-position-go", steps: vec![send(POSITIONS[0]), send(go200), Step::Wait("bestmove", 4000), send(POSITIONS[2]), send(go200), Step::Wait("bestmove", 4000), send("ucinewgame"), send(POSITIONS[3]), Step::Sleep(250), send(go200), Step::Wait("bestmove", 4000)], gos: vec![Some(200), Some(200), Some(200)] });
    cases.push(Case { name: "isready-between-position-and-go", steps: vec![send(POSITIONS[3]), Step::Sleep(250), send("isready"), Step::Wait("readyok", 3000), Step::Sleep(250), send(go200), Step::Wait("bestmove", 4000)], gos: vec![Some(200)] });
    // positions in which one capture search is enormous (nine queens a side in contact: legal material): the
    // clock must cut the capture search too
    for (name, fen) in [
        ("capture-explosion-9-queens-a-side-in-check", "7k/8/1qQqQqQ1/1QqQqQq1/1qQqQqQ1/8/8/K7 w - - 0 1"),
        ("capture-explosion-9-queens-a-side-black", "k7/8/8/1QqQqQq1/1qQqQqQ1/1QqQqQq1/8/7K b - - 0 1"),
        ("capture-explosion-two-rows", "k7/8/qQqQqQqQ/QqQqQqQq/qQ6/8/8/K7 w - - 0 1"),
    ] {
        let p = Pos::from_fen(fen).expect("explosion fen");
        if !p.is_legal_position() || p.legal_moves().is_empty() {
            crate::report::machinery_error(&format!("real-clock session root {} is not a legal non-terminal position", fen));
        }
        cases.push(Case { name, steps: vec![send(&format!("position fen {}", fen)), send("isready"), Step::Wait("readyok", 3000), send(go200), Step::Wait("bestmove", 3700), send("isready"), Step::Wait("readyok", 3000)], gos: vec![Some(200)] });
    }
    // clocks whose slice is 2^64 ms, a multiple of 2^64 ms, just below 2^32 and 2^31 ms, and plain large
    for (name, wtime) in [("slice-2^64-ms", "23058430092136939620"), ("slice-multiple-of-2^64-ms", "100000000000000000000000000000000000000"), ("slice-2^32-ms", "5368709220"), ("slice-2^31-ms", "2684354660"), ("slice-10^15-ms", "1250000000000100"), ("slice-1-hour", "4500100")] {
        cases.push(Case { name, steps: vec![send(POSITIONS[0]), send(&format!("go wtime {} btime 1000 movestogo 1", wtime)), Step::Wait("bestmove", 1800)], gos: vec![None] });
    }
    // thorough: slices of 16 s — an overhead that grows with the slice (a polling interval derived from the
    // elapsed time, say) is invisible below a few seconds. Judged relative to the overhead of the short slices
    // of the same run, so that machine load moves both.
    let go16000 = "go wtime 20100 btime 20100 movestogo 1";
    if !rep.quick() {
        for (k, p) in [POSITIONS[0], POSITIONS[2], POSITIONS[3], POSITIONS[0], POSITIONS[2], POSITIONS[3]].iter().enumerate() {
            cases.push(Case { name: if k < 3 { "slice-of-16-s" } else { "slice-of-16-s-after-a-pause" }, steps: vec![send(p), send("isready"), Step::Wait("readyok", 3000), Step::Sleep(if k < 3 { 0 } else { 333 }), send(go16000), Step::Wait("bestmove", 16000 + 3500)], gos: vec![Some(16000)] });
        }
    }
    let overheads: Mutex<Vec<(u128, i128, String)>> = Mutex::new(Vec::new());
    let n = AtomicU64::new(0);
    run_parallel(cases.len(), |i| {
        let case = &cases[i];
        let t = run_timed(&case.steps, case.gos.iter().any(|g| g.is_none()));
        n.fetch_add(1, Ordering::Relaxed);
        let go_times: Vec<u128> = t.sent.iter().filter(|(l, _)| is_go(l)).map(|(_, at)| *at).collect();
        let best_waits: Vec<Option<u128>> = {
            // the Wait steps for "bestmove", in order
            let mut v = Vec::new();
            let mut wi = 0;
            for st in &case.steps {
                if let Step::Wait(p, _) = st {
                    if *p == "bestmove" {
                        v.push(t.waits.get(wi).cloned().flatten());
                    }
                    wi += 1;
                }
            }
            v
        };
        let script: Vec<String> = case.steps.iter().map(|s| match s { Step::Send(l) => l.clone(), Step::Sleep(ms) => format!("<pause {} ms>", ms), Step::Wait(p, ms) => format!("<wait for {} up to {} ms>", p, ms) }).collect();
        let replay = J::obj().set("kind", J::s("realclock-session")).set("script", J::strs(&script.iter().map(|s| s.as_str()).collect::<Vec<_>>())).set("binary", J::s(BIN_OFF));
        for (gi, plan) in case.gos.iter().enumerate() {
            let sent_at = go_times.get(gi).cloned().unwrap_or(0);
            match (plan, best_waits.get(gi).cloned().flatten()) {
                (Some(slice), Some(at)) => {
                    let delay = at.saturating_sub(sent_at);
                    overheads.lock().unwrap().push((*slice, delay as i128 - *slice as i128, case.name.to_string()));
                    if delay > slice + tol_late {
                        rep.fail("C08", &format!("realclock/{}/bestmove-later-than-slice-plus-3s", case.name), format!("go #{} of {:?}: bestmove {} ms after go, slice {} ms", gi + 1, script, delay, slice), replay.clone());
                    }
                    if delay + tol_early < *slice {
                        rep.fail("C09", &format!("realclock/{}/bestmove-earlier-than-planned-slice", case.name), format!("go #{} of {:?}: bestmove {} ms after go, planned slice {} ms", gi + 1, script, delay, slice), replay.clone());
                    }
                }
                (Some(slice), None) => rep.fail("C08", &format!("realclock/{}/no-bestmove-within-slice-plus-3s", case.name), format!("go #{} of {:?}: no bestmove within {} ms (slice {} ms)", gi + 1, script, slice + tol_late + 500, slice), replay.clone()),
                (None, Some(at)) => rep.fail("C09", &format!("realclock/{}/answered-long-before-the-planned-slice", case.name), format!("{:?}: bestmove {} ms after go although the planned slice is far longer", script, at.saturating_sub(sent_at)), replay.clone()),
                (None, None) => {}
            }
        }
        // the process must still end on quit (the huge-clock searches are still running: the I/O thread is
        // blocked waiting for them, which the statement of C17 covers for completed searches only)
        if case.gos.iter().all(|g| g.is_some()) && t.killed {
            rep.fail("C08", &format!("realclock/{}/not-responsive-after-go", case.name), format!("{:?}: quit after the last bestmove did not end the process within 3 s", script), replay.clone());
        }
    });
    // "a small constant overhead": the overhead of the long slices is not larger than that of the short ones
    let overheads = overheads.into_inner().unwrap();
    let base = overheads.iter().filter(|(s, _, name)| *s <= 2300 && !name.starts_with("capture-explosion")).map(|(_, o, _)| *o).max().unwrap_or(0);
    let mut worst_long: i128 = 0;
    for (slice, o, name) in &overheads {
        if *slice >= 16000 {
            worst_long = worst_long.max(*o);
            if *o > base.max(0) + 40 {
                rep.fail("C08", "realclock/overhead-grows-with-the-slice", format!("{}: bestmove {} ms after the end of a {} ms slice, while the slices of 0.2 .. 2.3 s of the same run overran by at most {} ms", name, o, slice, base), J::obj().set("kind", J::s("realclock-session")).set("script", J::strs(&[POSITIONS[0], go16000])).set("binary", J::s(BIN_OFF)));
            }
        }
    }
    rep.set_extra("realclock_overheads_ms", J::obj().set("largest_overrun_of_slices_up_to_2300_ms", J::Int(base as i128)).set("largest_overrun_of_16_s_slices_thorough_only", J::Int(worst_long as i128)));
    rep.add("realclock_interactive_sessions_unhooked_binary", n.load(Ordering::Relaxed));
    n.load(Ordering::Relaxed)
}

/// Wall-clock smoke check on the hooks-off binary (C08/C09): labelled as a measurement, generous margin.
pub fn wallclock_smoke(rep: &Report) -> u64 {
    require_binaries();
    let cases = [
        (POSITIONS[0], false),
        (POSITIONS[2], false),
        (POSITIONS[3], false),
        ("position fen 7k/8/8/8/8/8/R7/K7 w - - 0 1", false),
        ("position fen 7k/6Q1/6K1/8/8/8/8/8 b - - 0 1", true),
        ("position fen 7k/5Q2/6K1/8/8/8/8/8 b - - 0 1", true),
    ];
    // slice = 0.8 * (6100 - 100) / 24 = 200 ms
    let goline = "go wtime 6100 btime 6100 movestogo 24";
    let slice_ms: u128 = 200;
    let n = AtomicU64::new(0);
    run_parallel(cases.len(), |i| {
        let (p, terminal) = cases[i];
        let mut opts = default_opts();
        opts.bin = BIN_OFF;
        opts.hooks = false;
        opts.pace_ms = 0;
        opts.timeout = Duration::from_secs(8);
        let s = vec![c(p), c("isready"), c(goline), c("isready")];
        let o = run_session(&s, &opts);
        n.fetch_add(1, Ordering::Relaxed);
        let t_ready = o.stdout.iter().position(|l| l == "readyok").map(|j| o.stdout_times_ms[j]);
        let t_best = o.stdout.iter().position(|l| l.starts_with("bestmove")).map(|j| o.stdout_times_ms[j]);
        let second_ready = o.stdout.iter().filter(|l| *l == "readyok").count() == 2;
        match (t_ready, t_best) {
            (Some(a), Some(b)) => {
                let delay = b.saturating_sub(a);
                if delay > slice_ms + 3000 {
                    rep.fail("C08", "smoke/bestmove-later-than-slice-plus-3s", format!("{}: bestmove {} ms after go (slice {} ms)", p, delay, slice_ms), session_json(&s));
                }
                if !terminal && delay + 60 < slice_ms {
                    rep.fail("C09", "smoke/bestmove-earlier-than-planned-slice", format!("{}: bestmove {} ms after go, planned slice {} ms", p, delay, slice_ms), session_json(&s));
                }
                if !second_ready {
                    rep.fail("C08", "smoke/not-responsive-after-go", format!("{}: no readyok after the bestmove", p), session_json(&s));
                }
            }
            _ => rep.fail("C08", if terminal { "no-answer/root-without-legal-move" } else { "smoke/no-bestmove" }, format!("{}: no bestmove within 8 s on the unhooked binary", p), session_json(&s)),
        }
    });
    rep.add("wallclock_smoke_runs_unhooked_binary", n.load(Ordering::Relaxed));
    n.load(Ordering::Relaxed)
}

/// Free-running conformance of the scheduler shim: bestmoves observed on the real binary (std threads,
/// real clock, tiny allowances) must lie in the outcome set loom enumerated for that root.
pub fn free_running_conformance(rep: &Report, outcomes_by_root: &BTreeMap<String, BTreeSet<String>>) -> u64 {
    require_binaries();
    let allowances = ["go wtime 101 btime 101", "go wtime 130 btime 130", "go wtime 250 btime 250", "go wtime 400 btime 400 movestogo 10", "go"];
    let roots: Vec<&String> = outcomes_by_root.keys().collect();
    let jobs: Vec<(usize, usize)> = (0..roots.len()).flat_map(|r| (0..allowances.len()).map(move |a| (r, a))).collect();
    let ok = AtomicU64::new(0);
    run_parallel(jobs.len(), |j| {
        let (r, a) = jobs[j];
        let mut opts = default_opts();
        opts.bin = BIN_OFF;
        opts.hooks = false;
        opts.timeout = Duration::from_secs(8);
        let s = vec![c(&format!("position fen {}", roots[r])), c(allowances[a]), c("isready")];
        let o = run_session(&s, &opts);
        if let Some(b) = o.stdout.iter().find(|l| l.starts_with("bestmove")) {
            let mv = bestmove_of(b).unwrap_or_default();
            if outcomes_by_root[roots[r]].contains(&mv) {
                ok.fetch_add(1, Ordering::Relaxed);
            } else {
                // deeper real searches can prefer a move the bounded expiry range never reached: an observation
                rep.add("free_running_outcomes_outside_the_enumerated_set", 1);
            }
        }
    });
    ok.load(Ordering::Relaxed)
}

//! Driver of E3: runs one wmc-sched process per (root, expiry vector, preemption bound) model and
//! merges the results. A loom abort or a crash of a model process is a machinery error, never a verdict.
#![allow(dead_code)]
use crate::json::J;
use crate::report::Report;
use crate::rules::Pos;
use std::collections::{BTreeMap, BTreeSet};
use std::process::Command;
use std::sync::atomic::{AtomicUsize, Ordering};
use std::sync::Mutex;

pub const SCHED_BIN: &str = "/verif/target/loom/release/wmc-sched";

pub struct Model {
    pub fen: &'static str,
    pub ks: Vec<usize>,
    pub bound: Option<usize>,
    pub gos: usize,
}

pub const ROOTS: &[(&str, &str)] = &[
    ("7k/8/8/8/8/8/8/K7 w - - 0 1", "bare kings, 3 legal moves"),
    ("4k3/8/8/8/8/8/4q3/4K3 w - - 0 1", "in check, single legal move"),
    ("8/8/8/3k4/8/3K4/8/8 w - - 0 1", "5 legal moves"),
    ("1n2k2r/P7/8/8/8/8/8/4K3 w k - 0 1", "promotions available, 13 legal moves"),
    ("k7/8/1K6/8/8/8/8/7R w - - 0 1", "mate in one available"),
];
pub const TERMINAL_ROOTS: &[(&str, &str)] = &[("7k/6Q1/6K1/8/8/8/8/8 b - - 0 1", "checkmated"), ("7k/5Q2/6K1/8/8/8/8/8 b - - 0 1", "stalemated")];

pub fn models(quick: bool) -> Vec<Model> {
    let mut v = Vec::new();
    for (i, (fen, _)) in ROOTS.iter().enumerate() {
        // every expiry index up to kmax at preemption bound 2
        let kmax = if quick { 40 } else { 60 };
        for k in 0..=kmax {
            v.push(Model { fen, ks: vec![k], bound: Some(2), gos: 1 });
        }
        // preemption bound 3 on a shorter range
        let k3 = if quick { if i == 0 { 12 } else { 6 } } else { 30 };
        for k in 0..=k3 {
            v.push(Model { fen, ks: vec![k], bound: Some(3), gos: 1 });
        }
        // unbounded preemptions for small expiry indices
        for k in 0..=(if quick { 5 } else { 8 }) {
            v.push(Model { fen, ks: vec![k], bound: None, gos: 1 });
        }
    }
    for (fen, _) in TERMINAL_ROOTS {
        for k in [0usize, 1, 5, 20] {
            v.push(Model { fen, ks: vec![k], bound: Some(3), gos: 1 });
        }
        v.push(Model { fen, ks: vec![3, 3], bound: Some(2), gos: 2 });
    }
    // the engine's own answer ends the game (mate in one), then go again: null move expected
    for k1 in [9usize, 20, 40] {
        for k2 in [0usize, 5] {
            v.push(Model { fen: ROOTS[4].0, ks: vec![k1, k2], bound: Some(2), gos: 2 });
        }
    }
    // two consecutive go commands: the first search thread may still be running
    for (fen, _) in &ROOTS[..if quick { 3 } else { 5 }] {
        for k1 in [0usize, 3, 7, 9, 12] {
            for k2 in [0usize, 2, 7, 11] {
                v.push(Model { fen, ks: vec![k1, k2], bound: Some(2), gos: 2 });
            }
        }
    }
    if !quick {
        // three consecutive go commands on the smallest root
        for k in [0usize, 4, 9] {
            v.push(Model { fen: ROOTS[0].0, ks: vec![k, k, k], bound: Some(2), gos: 3 });
        }
    }
    v
}

pub struct E3Result {
    pub models: u64,
    pub executions: u64,
    pub outcomes_by_root: BTreeMap<String, BTreeSet<String>>,
    pub models_with_several_outcomes: u64,
}

pub fn run(rep: &Report, only_terminal_and_first: bool) -> E3Result {
    if !std::path::Path::new(SCHED_BIN).exists() {
        crate::report::machinery_error("wmc-sched is not built (run bin/setup)");
    }
    let mut ms = models(rep.quick());
    if only_terminal_and_first {
        ms.retain(|m| TERMINAL_ROOTS.iter().any(|(f, _)| *f == m.fen) || m.fen == ROOTS[0].0 || m.fen == ROOTS[1].0);
    }
    let idx = AtomicUsize::new(0);
    let results: Mutex<Vec<(usize, J)>> = Mutex::new(Vec::new());
    let threads = std::thread::available_parallelism().map(|n| n.get()).unwrap_or(8).min(16);
    std::thread::scope(|s| {
        for _ in 0..threads {
            s.spawn(|| loop {
                let i = idx.fetch_add(1, Ordering::Relaxed);
                if i >= ms.len() {
                    break;
                }
                let m = &ms[i];
                let ks = m.ks.iter().map(|k| k.to_string()).collect::<Vec<_>>().join(",");
                let bound = m.bound.map(|b| b.to_string()).unwrap_or("none".into());
                let wall: u64 = if rep.quick() { 40 } else { 900 };
                let child = Command::new(SCHED_BIN).args(["run", m.fen, &ks, &bound, &m.gos.to_string()]).env("WMC_MAX_SECS", wall.to_string()).stdout(std::process::Stdio::piped()).stderr(std::process::Stdio::piped()).spawn();
                let mut child = match child {
                    Ok(c) => c,
                    Err(e) => crate::report::machinery_error(&format!("cannot run wmc-sched: {}", e)),
                };
                // loom's own duration cap is only looked at between executions: a single execution that never ends
                // (the explorer stuck, e.g. on a synchronisation object that outlives an execution) needs a hard stop
                let t0 = std::time::Instant::now();
                loop {
                    match child.try_wait() {
                        Ok(Some(_)) => break,
                        Ok(None) => {
                            if t0.elapsed().as_secs() > wall + 30 {
                                let _ = child.kill();
                                let _ = child.wait();
                                crate::report::machinery_error(&format!("the loom model for {} k={} bound={} gos={} did not end within {} s: the explorer is stuck inside one execution (not a verdict)", m.fen, ks, bound, m.gos, wall + 30));
                            }
                            std::thread::sleep(std::time::Duration::from_millis(5));
                        }
                        Err(e) => crate::report::machinery_error(&format!("waiting for wmc-sched: {}", e)),
                    }
                }
                let out = match child.wait_with_output() {
                    Ok(o) => o,
                    Err(e) => crate::report::machinery_error(&format!("cannot read wmc-sched output: {}", e)),
                };
                let text = String::from_utf8_lossy(&out.stdout).to_string();
                let line = text.lines().rev().find(|l| l.starts_with('{')).unwrap_or("").to_string();
                match J::parse(&line) {
                    Ok(j) => results.lock().unwrap().push((i, j)),
                    Err(_) => crate::report::machinery_error(&format!("model process for {} k={} bound={} ended without a result (status {:?}); stderr: {}", m.fen, ks, bound, out.status.code(), String::from_utf8_lossy(&out.stderr).chars().take(600).collect::<String>())),
                }
            });
        }
    });
    let mut res = E3Result { models: 0, executions: 0, outcomes_by_root: BTreeMap::new(), models_with_several_outcomes: 0 };
    let mut results = results.into_inner().unwrap();
    results.sort_by_key(|(i, _)| *i);
    let mut incomplete = 0;
    for (i, j) in &results {
        let m = &ms[*i];
        res.models += 1;
        res.executions += j.get("executions").and_then(|x| x.as_i()).unwrap_or(0) as u64;
        let complete = matches!(j.get("complete"), Some(J::Bool(true)));
        let ks = m.ks.iter().map(|k| k.to_string()).collect::<Vec<_>>().join(",");
        let bound = m.bound.map(|b| b.to_string()).unwrap_or("none".into());
        if let Some(J::Obj(o)) = j.get("outcomes") {
            if o.len() > 1 {
                res.models_with_several_outcomes += 1;
            }
            let e = res.outcomes_by_root.entry(m.fen.to_string()).or_default();
            for (k, _) in o {
                if let Some(first) = k.split(' ').next() {
                    e.insert(first.to_string());
                }
            }
        }
        let viols: Vec<J> = match j.get("violation") {
            Some(J::Arr(a)) => a.clone(),
            Some(v @ J::Obj(_)) => vec![v.clone()],
            _ => Vec::new(),
        };
        if viols.is_empty() && !complete {
            incomplete += 1;
        }
        for v in &viols {
            let prop = v.get("property").and_then(|x| x.as_str()).unwrap_or("C03");
            let sig = v.get("signature").and_then(|x| x.as_str()).unwrap_or("schedule");
            let summary = v.get("summary").and_then(|x| x.as_str()).unwrap_or("");
            rep.fail(
                prop,
                sig,
                format!("{} [preemption bound {}, {} go(s)]", summary, bound, m.gos),
                J::obj().set("kind", J::s("e3-model")).set("fen", J::s(m.fen)).set("expiry", J::s(&ks)).set("preemption_bound", J::s(&bound)).set("gos", J::Int(m.gos as i128)).set("command", J::s(&format!("{} run '{}' {} {} {}", SCHED_BIN, m.fen, ks, bound, m.gos))),
            );
        }
        if *i % 37 == 0 {
            rep.sample(J::obj().set("model", J::s(&format!("{} expiry {} bound {} gos {}", m.fen, ks, bound, m.gos))).set("executions", j.get("executions").cloned().unwrap_or(J::Null)).set("outcomes", j.get("outcomes").cloned().unwrap_or(J::Null)));
        }
    }
    if incomplete > 0 {
        rep.note(format!("{} loom models hit their wall-time cap before completing (counted, not claimed exhaustive)", incomplete));
        rep.add("loom_models_capped", incomplete);
    }
    rep.add("loom_models", res.models);
    rep.add("loom_executions", res.executions);
    rep.add("loom_models_with_more_than_one_outcome", res.models_with_several_outcomes);
    rep.assume("loom explores all interleavings of the scheduling points (channel lock, clock consultations, spawn/join, the yield in the polling loop) up to the stated preemption bound; the two threads share nothing else (moved clones, no unsafe)");
    res
}

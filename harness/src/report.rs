//! Evidence, violations, replay files, known findings.
#![allow(dead_code)]
use crate::json::J;
use std::collections::BTreeMap;
use std::sync::Mutex;
use std::time::Instant;

pub const VERIF_DIR: &str = "/verif";

#[derive(Clone, Debug)]
pub struct Violation {
    pub property: String,
    /// classifies the failure: used to match known findings and to keep one replay per kind
    pub signature: String,
    pub summary: String,
    /// self-contained case: enough to re-execute without the explorer
    pub replay: J,
}

pub struct Report {
    pub property: String,
    pub tier: String,
    pub seed: i64,
    pub start: Instant,
    pub violations: Mutex<Vec<Violation>>,
    pub violation_count: Mutex<BTreeMap<String, u64>>, // per signature
    pub guard_failures: Mutex<BTreeMap<String, u64>>,  // other properties' oracles that fired (not verdicts here)
    pub counters: Mutex<BTreeMap<String, u64>>,
    pub samples: Mutex<Vec<J>>,
    pub notes: Mutex<Vec<String>>,
    pub assumptions: Mutex<Vec<String>>,
    pub extra: Mutex<Vec<(String, J)>>,
}

const MAX_KEPT_PER_SIGNATURE: usize = 2;
const MAX_KEPT_TOTAL: usize = 40;

impl Report {
    pub fn new(property: &str, tier: &str) -> Report {
        let seed = std::env::var("VERIF_SEED").ok().and_then(|s| s.parse().ok()).unwrap_or(0);
        Report {
            property: property.to_string(),
            tier: tier.to_string(),
            seed,
            start: Instant::now(),
            violations: Mutex::new(Vec::new()),
            violation_count: Mutex::new(BTreeMap::new()),
            guard_failures: Mutex::new(BTreeMap::new()),
            counters: Mutex::new(BTreeMap::new()),
            samples: Mutex::new(Vec::new()),
            notes: Mutex::new(Vec::new()),
            assumptions: Mutex::new(Vec::new()),
            extra: Mutex::new(Vec::new()),
        }
    }

    pub fn quick(&self) -> bool {
        self.tier == "quick"
    }

    /// A failure of property `prop`'s oracle. It is a verdict only if `prop` is this run's property,
    /// otherwise it is counted as a guard failure (reported in the evidence, decided by prop's own check).
    pub fn fail(&self, prop: &str, signature: &str, summary: String, replay: J) {
        let summary = if summary.chars().count() > 900 { format!("{}… ({} characters in all; the full case is in the replay file)", summary.chars().take(900).collect::<String>(), summary.chars().count()) } else { summary };
        if prop != self.property {
            *self.guard_failures.lock().unwrap().entry(format!("{}:{}", prop, signature)).or_insert(0) += 1;
            return;
        }
        let mut counts = self.violation_count.lock().unwrap();
        let c = counts.entry(signature.to_string()).or_insert(0);
        *c += 1;
        if *c as usize > MAX_KEPT_PER_SIGNATURE {
            return;
        }
        drop(counts);
        let mut v = self.violations.lock().unwrap();
        if v.len() < MAX_KEPT_TOTAL {
            v.push(Violation { property: prop.to_string(), signature: signature.to_string(), summary, replay });
        }
    }

    pub fn add(&self, counter: &str, n: u64) {
        *self.counters.lock().unwrap().entry(counter.to_string()).or_insert(0) += n;
    }

    pub fn merge_counters(&self, local: &BTreeMap<&'static str, u64>) {
        let mut c = self.counters.lock().unwrap();
        for (k, v) in local {
            *c.entry(k.to_string()).or_insert(0) += v;
        }
    }

    pub fn get(&self, counter: &str) -> u64 {
        *self.counters.lock().unwrap().get(counter).unwrap_or(&0)
    }

    pub fn sample(&self, s: J) {
        let mut v = self.samples.lock().unwrap();
        if v.len() < 12 {
            v.push(s);
        }
    }

    pub fn note(&self, s: String) {
        eprintln!("[{}] {}", self.property, s);
        self.notes.lock().unwrap().push(s);
    }

    pub fn assume(&self, s: &str) {
        let mut a = self.assumptions.lock().unwrap();
        if !a.iter().any(|x| x == s) {
            a.push(s.to_string());
        }
    }

    pub fn set_extra(&self, k: &str, v: J) {
        let mut e = self.extra.lock().unwrap();
        if let Some(x) = e.iter_mut().find(|(kk, _)| kk == k) {
            x.1 = v;
        } else {
            e.push((k.to_string(), v));
        }
    }

    /// Write evidence, replay files and the verdict lines. Returns the process exit code.
    /// `states`, `transitions`, `validated`: the measured model-checking counters; `exhaustive`: the
    /// bounded space described by `rule` was enumerated completely.
    pub fn finish(&self, states: u64, transitions: u64, validated: u64, exhaustive: bool, rule: &str) -> i32 {
        let known = load_known_findings();
        let violations = self.violations.lock().unwrap().clone();
        let counts = self.violation_count.lock().unwrap().clone();
        let mut new_violations = 0u64;
        let mut known_hits: Vec<String> = Vec::new();
        let mut printed_known: Vec<String> = Vec::new();
        let mut replay_paths = Vec::new();
        let _ = std::fs::create_dir_all(format!("{}/replays", VERIF_DIR));
        // remove stale replay files of this property
        if let Ok(rd) = std::fs::read_dir(format!("{}/replays", VERIF_DIR)) {
            for e in rd.flatten() {
                let name = e.file_name().to_string_lossy().to_string();
                if name.starts_with(&format!("{}-", self.property)) {
                    let _ = std::fs::remove_file(e.path());
                }
            }
        }
        let mut n = 0;
        for v in &violations {
            if let Some(k) = known.iter().find(|k| k.property == v.property && k.signature == v.signature) {
                if !printed_known.contains(&k.signature) {
                    println!("KNOWN-FINDING: property={} {} [{}]", v.property, k.what, k.signature);
                    printed_known.push(k.signature.clone());
                }
                known_hits.push(v.signature.clone());
                continue;
            }
            n += 1;
            new_violations += 1;
            let path = format!("{}/replays/{}-{}.json", VERIF_DIR, self.property, n);
            let doc = J::obj()
                .set("property", J::s(&v.property))
                .set("signature", J::s(&v.signature))
                .set("summary", J::s(&v.summary))
                .set("occurrences_of_this_signature", J::Int(*counts.get(&v.signature).unwrap_or(&1) as i128))
                .set("case", v.replay.clone());
            let _ = std::fs::write(&path, doc.to_string_pretty());
            println!("VIOLATION property={} replay={}", v.property, path);
            println!("  {} :: {}", v.signature, v.summary);
            replay_paths.push(path);
        }
        let total_violation_events: u64 =
            counts.iter().filter(|(sig, _)| !known.iter().any(|k| k.property == self.property && &k.signature == *sig)).map(|(_, c)| *c).sum();

        let counters = self.counters.lock().unwrap().clone();
        let mut coverage = J::obj()
            .set("states", J::Int(states as i128))
            .set("transitions", J::Int(transitions as i128))
            .set("traces_validated_against_impl", J::Int(validated as i128))
            .set("exhaustive", J::Bool(exhaustive))
            .set("rule", J::s(rule))
            .set("samples", J::Arr(self.samples.lock().unwrap().clone()))
            .set("counters", J::from_map(&counters))
            .set("guard_failures_of_other_properties", J::from_map(&self.guard_failures.lock().unwrap()))
            .set("violation_signatures", J::from_map(&counts))
            .set("known_findings_hit", J::strs(&known_hits))
            .set("notes", J::strs(&self.notes.lock().unwrap()));
        for (k, v) in self.extra.lock().unwrap().iter() {
            coverage.put(k, v.clone());
        }
        let ev = J::obj()
            .set("property_id", J::s(&self.property))
            .set("tier", J::s(&self.tier))
            .set("seed", J::Int(self.seed as i128))
            .set("level", J::s("model_checking"))
            .set("coverage", coverage)
            .set("assumptions", J::strs(&self.assumptions.lock().unwrap()))
            .set("wall_s", J::Num(self.start.elapsed().as_secs_f64()))
            .set("violations", J::Int(total_violation_events as i128));
        let _ = std::fs::create_dir_all(format!("{}/evidence", VERIF_DIR));
        let evp = format!("{}/evidence/{}.json", VERIF_DIR, self.property);
        if let Err(e) = std::fs::write(&evp, ev.to_string_pretty()) {
            eprintln!("cannot write {}: {}", evp, e);
            return 2;
        }
        eprintln!(
            "[{}] {} tier: states={} transitions={} validated={} exhaustive={} violations={} known={} wall={:.1}s",
            self.property,
            self.tier,
            states,
            transitions,
            validated,
            exhaustive,
            new_violations,
            known_hits.len(),
            self.start.elapsed().as_secs_f64()
        );
        if new_violations > 0 {
            1
        } else {
            println!("OK property={} held on everything explored ({} states, {} transitions)", self.property, states, transitions);
            0
        }
    }
}

pub struct KnownFinding {
    pub property: String,
    pub signature: String,
    pub what: String,
}

/// Open findings from the committed file; never written at run time. "fixed" records suppress nothing.
pub fn load_known_findings() -> Vec<KnownFinding> {
    let path = format!("{}/known_findings.json", VERIF_DIR);
    let text = match std::fs::read_to_string(&path) {
        Ok(t) => t,
        Err(_) => return Vec::new(),
    };
    let j = match J::parse(&text) {
        Ok(j) => j,
        Err(e) => {
            eprintln!("known_findings.json unreadable: {}", e);
            std::process::exit(2);
        }
    };
    let mut out = Vec::new();
    if let Some(open) = j.get("open").and_then(|o| o.as_arr()) {
        for o in open {
            out.push(KnownFinding {
                property: o.get("property").and_then(|x| x.as_str()).unwrap_or("").to_string(),
                signature: o.get("signature").and_then(|x| x.as_str()).unwrap_or("").to_string(),
                what: o.get("what").and_then(|x| x.as_str()).unwrap_or("").to_string(),
            });
        }
    }
    out
}

/// A machinery failure: never a verdict.
pub fn machinery_error(msg: &str) -> ! {
    eprintln!("MACHINERY-ERROR: {}", msg);
    std::process::exit(2);
}

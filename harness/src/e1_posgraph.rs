//! E1 — explicit-state search over chess positions. Transition function = the engine's real
//! generate_moves; oracle = rules.rs. Serves C01, C02, C03(a), C04, C05, C13.
#![allow(dead_code)]
use crate::board::{BoardState, Piece, PieceColor, Point};
use crate::bridge::*;
use crate::draw_table::DrawTable;
use crate::json::J;
use crate::move_generation::{generate_moves, MoveGenerationMode};
use crate::report::Report;
use crate::rules::{self, Mv, Pos};
use crate::zobrist::ZobristHasher;
use std::collections::{BTreeMap, HashMap};
use std::panic::{catch_unwind, AssertUnwindSafe};
use std::sync::atomic::{AtomicU64, AtomicUsize, Ordering};
use std::sync::{Arc, Mutex};

pub struct PathNode {
    pub parent: Option<Arc<PathNode>>,
    pub mv: Mv,
    pub cap: bool,
}

#[derive(Clone)]
pub struct Node {
    pub pos: Pos,
    pub promo: Option<Piece>, // hidden field carried by the engine object (parent's promotion piece)
    pub oh: i32,
    pub last: Option<(Point, Point)>,
    pub cap: bool, // reached through capture-only generation
    pub cap_len: u8, // length of the capture-only chain so far
    // the engine's own successor object when it differs from the true position (an upstream defect):
    // exploration then continues in lock-step, engine object beside true position
    pub diverged: Option<Box<BoardState>>,
    // reached by following a special move (castling, en passant, promotion) one ply beyond the depth limit
    pub ext: bool,
    pub root: Arc<String>,
    pub path: Option<Arc<PathNode>>,
    pub depth: u16,
}

impl Node {
    pub fn root(pos: Pos) -> Node {
        Node { pos, promo: None, oh: 0, last: None, cap: false, cap_len: 0, diverged: None, ext: false, root: Arc::new(pos.fen()), path: None, depth: 0 }
    }
    pub fn board(&self, h: &ZobristHasher) -> BoardState {
        if let Some(d) = &self.diverged {
            return (**d).clone();
        }
        let mut b = board_of_pos(&self.pos, h);
        b.pawn_promotion = self.promo;
        b.order_heuristic = self.oh;
        b.last_move = self.last;
        b
    }
    pub fn path_moves(&self) -> Vec<(String, bool)> {
        let mut v = Vec::new();
        let mut cur = self.path.clone();
        while let Some(p) = cur {
            v.push((p.mv.uci(), p.cap));
            cur = p.parent.clone();
        }
        v.reverse();
        v
    }
    fn key(&self) -> u128 {
        let promo_bits = match self.promo {
            None => 0u32,
            Some(p) => 1 + oracle_piece(p) as u32,
        };
        let mut extra = promo_bits | ((self.cap as u32) << 8);
        if let Some(d) = &self.diverged {
            // distinguish by what the engine believes
            let believed = pos_of_board(d).map(|p| fingerprint(&p, 0)).unwrap_or(1) ^ (d.zobrist_key as u128);
            extra ^= ((believed as u32) | 1) << 9;
        }
        fingerprint(&self.pos, extra)
    }
    pub fn replay_json(&self, what: &str) -> J {
        let pm = self.path_moves();
        J::obj()
            .set("kind", J::s("e1-node"))
            .set("check", J::s(what))
            .set("root_fen", J::s(&self.root))
            .set("path", J::Arr(pm.iter().map(|(m, cap)| J::s(&if *cap { format!("{}*", m) } else { m.clone() })).collect()))
            .set("path_note", J::s("moves are engine successors followed from root_fen; a trailing * marks a step taken through capture-only generation"))
            .set("position_fen", J::s(&self.pos.fen()))
            .set("inherited_promotion_piece", J::s(&self.promo.map(|p| format!("{:?} {:?}", p.color, p.kind)).unwrap_or("none".into())))
    }
}

/// Which oracles run (the cheap structural ones always run, they drive the expansion)
#[derive(Clone, Copy)]
pub struct Focus {
    pub descriptor: bool, // C02 descriptor + printed text (also C03a)
    pub applier: bool,    // C04 text applier per edge
    pub keys: bool,       // C05 keys of all three producers
    pub captures: bool,   // C13 capture-only chains
    pub path_replay: bool, // C04 whole path through `position ... moves ...`
    pub fen_roots: bool,  // roots loaded through from_fen and compared
    pub eval_purity: bool,     // C14 on the boards the producers build
    pub pv_descriptor: bool,   // C18: the first PV move an info line would print for a root move is that move
    pub check_detection: bool, // C06 on the boards the three producers build (king cache as THEY set it)
    pub skip_kkx_only: bool, // C04: Kk+X has no castling, en passant or promotion: left to C02/C05, the ep families stay
    pub skip_kkx: bool,   // leave the Kk+X family to the sibling property that runs the same oracle on it
}

impl Focus {
    pub fn for_property(p: &str) -> Focus {
        Focus {
            descriptor: p == "C02" || p == "C03",
            applier: p == "C04" || p == "C06" || p == "C14",
            keys: p == "C05" || p == "C04",
            captures: p == "C13",
            path_replay: p == "C04" || p == "C06" || p == "C03" || p == "C14",
            fen_roots: true,
            // C03(a) is C02's printed-text oracle; C02 runs it on Kk+X, C03 spends the time on schedules instead
            eval_purity: p == "C14",
            pv_descriptor: p == "C18",
            check_detection: p == "C06",
            skip_kkx: p == "C03" || p == "C06" || p == "C14" || p == "C18",
            skip_kkx_only: p == "C04",
        }
    }
}

pub struct Explorer<'a> {
    pub rep: &'a Report,
    pub h: ZobristHasher,
    pub focus: Focus,
    pub seen: Vec<Mutex<HashMap<u128, u16>>>,
    pub states: AtomicU64,
    pub transitions: AtomicU64,
    pub paths_replayed: AtomicU64,
    pub transpositions: AtomicU64,
    pub threads: usize,
    pub cap_chain_limit_heavy: u8,
}

type Local = BTreeMap<&'static str, u64>;
fn bump(l: &mut Local, k: &'static str) {
    *l.entry(k).or_insert(0) += 1;
}

fn mv_class(pos: &Pos, m: &Mv) -> &'static str {
    if pos.b[m.from as usize] == rules::EMPTY {
        "from-empty-square"
    } else if pos.is_castle(m) {
        "castling"
    } else if pos.is_en_passant(m) {
        "en-passant"
    } else if m.promo != 0 {
        "promotion"
    } else if rules::kind_of(pos.b[m.from as usize]) == rules::K {
        "king-move"
    } else if rules::kind_of(pos.b[m.from as usize]) == rules::P {
        "pawn-move"
    } else {
        "piece-move"
    }
}

/// C14 on a board built by one of the producers: its evaluation equals that of the same position loaded from FEN
fn reference_eval(pos: &Pos) -> Option<i32> {
    let fen = pos.fen();
    catch_unwind(|| BoardState::from_fen(&fen).ok().map(|b| crate::evaluation::get_evaluation(&b))).ok().flatten()
}

fn compare_eval(rep: &Report, board: &BoardState, pos: &Pos, reference: Option<i32>, producer: &str, ctx: J) {
    let reference = match reference {
        Some(v) => v,
        None => return,
    };
    match catch_unwind(AssertUnwindSafe(|| crate::evaluation::get_evaluation(board))) {
        Ok(v) => {
            if v != reference {
                rep.fail("C14", &format!("value-depends-on-how-the-position-was-reached/{}", producer.replace(' ', "-")), format!("{}: the board built by the {} evaluates to {}, the same position loaded from FEN to {}", pos.fen(), producer, v, reference), ctx.set("producer", J::s(producer)));
            }
        }
        Err(e) => rep.fail("C14", "evaluation-panic", format!("{}: {}", pos.fen(), panic_text(e)), ctx),
    }
}

/// C06 on a board built by one of the producers: is_check for both colours against the forward attack oracle
fn compare_check_detection(rep: &Report, board: &BoardState, pos: &Pos, producer: &str, ctx: J) {
    use crate::board::PieceColor;
    for (c, ec, name) in [(rules::WHITE, PieceColor::White, "white"), (rules::BLACK, PieceColor::Black, "black")] {
        let want = pos.in_check(c);
        match catch_unwind(AssertUnwindSafe(|| crate::move_generation::is_check(board, ec))) {
            Ok(got) => {
                if got != want {
                    rep.fail("C06", &format!("{}-on-board-from-{}", if got { "false-check" } else { "missed-check" }, producer), format!("{}: board built by the {}: engine says the {} king is in check = {}, the rules say {} (cached king squares {:?} / {:?})", pos.fen(), producer, name, got, want, board.white_king_location, board.black_king_location), ctx.clone().set("colour", J::s(name)).set("producer", J::s(producer)));
                }
            }
            Err(e) => rep.fail("C06", "is-check-panic", format!("{}: {}", pos.fen(), panic_text(e)), ctx.clone()),
        }
    }
}

fn panic_text(e: Box<dyn std::any::Any + Send>) -> String {
    if let Some(s) = e.downcast_ref::<&str>() {
        s.to_string()
    } else if let Some(s) = e.downcast_ref::<String>() {
        s.clone()
    } else {
        "panic".to_string()
    }
}

impl<'a> Explorer<'a> {
    pub fn new(rep: &'a Report, focus: Focus) -> Explorer<'a> {
        let threads = std::thread::available_parallelism().map(|n| n.get()).unwrap_or(8).min(16);
        Explorer {
            rep,
            h: ZobristHasher::create_zobrist_hasher(),
            focus,
            seen: (0..1024).map(|_| Mutex::new(HashMap::new())).collect(),
            states: AtomicU64::new(0),
            transitions: AtomicU64::new(0),
            paths_replayed: AtomicU64::new(0),
            transpositions: AtomicU64::new(0),
            threads,
            cap_chain_limit_heavy: 3, // both tiers: one ply more multiplies the work by the number of recaptures
        }
    }

    /// true if the state has not been visited with at least this much remaining depth
    fn first_visit(&self, key: u128, remaining: u16) -> bool {
        let shard = (key >> 64) as usize % self.seen.len();
        let mut m = self.seen[shard].lock().unwrap();
        match m.get(&key) {
            Some(r) if *r >= remaining => {
                // the same canonical state reached again by another route: a witnessed transposition
                // (its key was checked against the scratch key on both routes before it got here)
                self.transpositions.fetch_add(1, Ordering::Relaxed);
                false
            }
            _ => {
                m.insert(key, remaining);
                true
            }
        }
    }

    /// Printed bestmove text of a successor object, through the real printer
    fn printed(&self, b: &BoardState) -> Result<String, String> {
        crate::verif::arm_thread(None, 0, true);
        let r = catch_unwind(AssertUnwindSafe(|| crate::uci::verif_send_best_move_to_gui(b)));
        let out = crate::verif::take_capture();
        crate::verif::disarm_thread();
        match r {
            Err(e) => Err(format!("printer panicked: {}", panic_text(e))),
            Ok(()) => {
                if out.len() == 1 {
                    Ok(out[0].clone())
                } else {
                    Err(format!("printer produced {} lines", out.len()))
                }
            }
        }
    }

    /// Check one node; push the children to expand into `out`.
    pub fn check_node(&self, node: &Node, max_depth: u16, out: &mut Vec<Node>, l: &mut Local) {
        let expand = node.depth < max_depth;
        // special moves are followed one ply beyond the limit: what they leave behind (rights, targets,
        // descriptors, discovered lines) only shows in what is generated next
        let extend = node.depth == max_depth && !node.ext && !node.cap;
        let rep = self.rep;
        let h = &self.h;
        let pos = &node.pos;
        let board = node.board(h);
        let ordinal = self.states.fetch_add(1, Ordering::Relaxed);
        let sample_this = ordinal % 1_500_007 == 0 || (node.depth >= 3 && ordinal % 150_001 == 0);
        bump(l, if node.cap { "states_capture_mode" } else { "states_normal_mode" });

        // roots: load through the real FEN reader and compare (guard for C15, producer (i) of C05)
        if node.depth == 0 && self.focus.fen_roots {
            let fen = pos.fen();
            match catch_unwind(|| BoardState::from_fen(&fen).map_err(|e| e.to_string())) {
                Ok(Ok(b)) => {
                    if let Some(d) = diff_board(&b, pos) {
                        rep.fail("C15", "fen-loader-unfaithful", format!("from_fen({}) : {}", fen, d), node.replay_json("from_fen vs oracle"));
                    }
                    if self.focus.check_detection {
                        compare_check_detection(rep, &b, pos, "FEN loader", node.replay_json("is_check on the FEN-loaded board"));
                    }
                    if b.zobrist_key != scratch_key(pos, h) {
                        rep.fail("C05", "fen-loader-key", format!("from_fen({}) key {} != scratch {}", fen, b.zobrist_key, scratch_key(pos, h)), node.replay_json("from_fen key vs scratch key"));
                    }
                    bump(l, "roots_loaded_through_from_fen");
                }
                Ok(Err(e)) => rep.fail("C15", "fen-loader-rejects-legal", format!("from_fen({}) = Err({})", fen, e), node.replay_json("from_fen rejects")),
                Err(e) => rep.fail("C15", "fen-loader-panic", format!("from_fen({}) panicked: {}", fen, panic_text(e)), node.replay_json("from_fen panics")),
            }
        }

        let oracle_moves = pos.legal_moves();
        if !node.cap {
            // vacuity counters
            if pos.in_check(pos.stm) {
                bump(l, "states_in_check");
                if pos.attackers(pos.king_sq(pos.stm).unwrap(), pos.stm ^ 1) >= 2 {
                    bump(l, "states_in_double_check");
                }
            }
            if oracle_moves.is_empty() {
                bump(l, "states_terminal");
            }
            if oracle_moves.iter().any(|m| pos.is_castle(m)) {
                bump(l, "states_with_castling_move");
            }
            if pos.rights != 0 && !oracle_moves.iter().any(|m| pos.is_castle(m)) {
                bump(l, "states_with_right_but_no_castling_move");
            }
            if oracle_moves.iter().any(|m| pos.is_en_passant(m)) {
                bump(l, "states_with_en_passant_capture");
            }
            if pos.ep.is_some() && !oracle_moves.iter().any(|m| pos.is_en_passant(m)) {
                bump(l, "states_with_target_but_no_en_passant_capture");
            }
            if oracle_moves.iter().any(|m| m.promo != 0) {
                bump(l, "states_with_promotion");
            }
            if node.promo.is_some() {
                bump(l, "states_carrying_a_promotion_descriptor");
            }

            // ---------------------------------------------------------------- all-moves generation
            let gen = catch_unwind(AssertUnwindSafe(|| generate_moves(&board, MoveGenerationMode::AllMoves, h)));
            let succs = match gen {
                Ok(s) => s,
                Err(e) => {
                    rep.fail("C01", "generator-panic", format!("generate_moves panicked on {}: {}", pos.fen(), panic_text(e)), node.replay_json("generate_moves(AllMoves)"));
                    return;
                }
            };
            self.transitions.fetch_add(succs.len() as u64, Ordering::Relaxed);
            let mut engine_moves: Vec<Option<Mv>> = succs.iter().map(|s| move_of_successor(pos, s)).collect();
            self.compare_lists("C01", "all-moves", node, &mut engine_moves, &oracle_moves);
            if sample_this {
                rep.sample(
                    node.replay_json("sample state: engine move list vs rules move list")
                        .set("engine_moves", J::s(&engine_moves.iter().flatten().map(|m| m.uci()).collect::<Vec<_>>().join(" ")))
                        .set("rules_moves", J::s(&oracle_moves.iter().map(|m| m.uci()).collect::<Vec<_>>().join(" "))),
                );
            }

            let mut used: Vec<Mv> = Vec::new();
            for (succ, mv) in succs.iter().zip(engine_moves.iter()) {
                let mv = match mv {
                    Some(m) => *m,
                    None => {
                        rep.fail("C02", "descriptor-missing", format!("successor of {} carries no usable (from,to)", pos.fen()), node.replay_json("descriptor"));
                        continue;
                    }
                };
                if !oracle_moves.contains(&mv) || used.contains(&mv) {
                    // reported by the list comparison. If the successor IS the result of some legal move, its
                    // descriptor names another move: that is C02's clause, and it is also what the first PV
                    // move of an info line for this root move would show (C18)
                    if let Some(sp) = pos_of_board(succ) {
                        if let Some(real) = oracle_moves.iter().find(|m| pos.make(m).b == sp.b && !used.contains(m)) {
                            rep.fail("C02", &format!("descriptor-names-another-move/{}", mv_class(pos, real)), format!("{}: the successor that results from {} carries the descriptor {}", pos.fen(), real.uci(), mv.uci()), self.edge_json(node, real, "descriptor names another move"));
                            rep.fail("C18", "first-pv-move-of-a-root-move-is-not-that-move", format!("{}: an info line for the root move {} would start its pv with {}, which is {}", pos.fen(), real.uci(), mv.uci(), if oracle_moves.contains(&mv) { "another move" } else { "not a legal move" }), self.edge_json(node, real, "first pv move"));
                        }
                    }
                    continue;
                }
                used.push(mv);
                let want = pos.make(&mv);
                let mut ok = true;
                if let Some(d) = diff_board(succ, &want) {
                    rep.fail("C02", &format!("successor-position/{}", mv_class(pos, &mv)), format!("{} after {}: {}", pos.fen(), mv.uci(), d), self.edge_json(node, &mv, "successor position vs rules"));
                    ok = false;
                }
                let want_key = scratch_key(&want, h);
                if succ.zobrist_key != want_key {
                    rep.fail("C05", &format!("generator-key/{}{}", mv_class(pos, &mv), if pos.ep.is_some() { "/parent-has-ep-target" } else { "" }), format!("{} after {}: incremental key {} != scratch key {}", pos.fen(), mv.uci(), succ.zobrist_key, want_key), self.edge_json(node, &mv, "generator key vs scratch key"));
                    ok = false;
                }
                let ref_eval = if self.focus.eval_purity { reference_eval(&want) } else { None };
                if self.focus.eval_purity {
                    compare_eval(rep, succ, &want, ref_eval, "move generator", self.edge_json(node, &mv, "evaluation of the generated successor"));
                }
                if self.focus.check_detection {
                    compare_check_detection(rep, succ, &want, "move generator", self.edge_json(node, &mv, "is_check on the generated successor"));
                }
                if self.focus.descriptor {
                    // descriptor: promotion piece present iff the move promotes, of the mover's colour
                    let want_promo = if mv.promo != 0 { Some(engine_piece(rules::pc(pos.stm, mv.promo))) } else { None };
                    if succ.pawn_promotion != want_promo {
                        rep.fail("C02", &format!("descriptor-promotion/{}", mv_class(pos, &mv)), format!("{} after {}: descriptor promotion piece {:?}, rules say {:?}", pos.fen(), mv.uci(), succ.pawn_promotion, want_promo), self.edge_json(node, &mv, "descriptor promotion piece"));
                    }
                    match self.printed(succ) {
                        Ok(text) => {
                            let want_text = format!("bestmove {}", mv.uci());
                            if text != want_text {
                                rep.fail(&rep.property.clone(), &format!("printed-move/{}", mv_class(pos, &mv)), format!("{} move {}: printed '{}'", pos.fen(), mv.uci(), text), self.edge_json(node, &mv, "printed bestmove text"));
                            }
                            bump(l, "moves_printed_and_compared");
                        }
                        Err(e) => rep.fail(&rep.property.clone(), "printer-failure", format!("{} move {}: {}", pos.fen(), mv.uci(), e), self.edge_json(node, &mv, "printer")),
                    }
                }
                if self.focus.applier {
                    // "every move the engine generates, printed as text and replayed, reproduces its own successor":
                    // the text is what the engine's own printer prints for this successor
                    // (the printer prints the descriptor squares plus the descriptor's promotion letter; `mv` was read
                    // from the same descriptor squares, so the two can only differ when a promotion piece is involved:
                    // the real printer is called exactly then)
                    let text = if succ.pawn_promotion.is_some() || mv.promo != 0 {
                        match self.printed(succ) {
                            Ok(t) => t.split_whitespace().nth(1).unwrap_or("").to_string(),
                            Err(_) => mv.uci(),
                        }
                    } else {
                        mv.uci()
                    };
                    if text != mv.uci() {
                        bump(l, "edges_whose_printed_text_differs_from_the_rules_text");
                    }
                    let mut b2 = board.clone();
                    match catch_unwind(AssertUnwindSafe(|| crate::uci::verif_make_move(&mut b2, &text, h))) {
                        Err(e) => rep.fail("C04", &format!("applier-panic/{}", mv_class(pos, &mv)), format!("{} text move {}: {}", pos.fen(), text, panic_text(e)), self.edge_json(node, &mv, "text applier")),
                        Ok(()) => {
                            if self.focus.eval_purity {
                                compare_eval(rep, &b2, &want, ref_eval, "text-move applier", self.edge_json(node, &mv, "evaluation of the board the text applier built"));
                            }
                            if self.focus.check_detection {
                                compare_check_detection(rep, &b2, &want, "text-move applier", self.edge_json(node, &mv, "is_check on the board the text applier built"));
                            }
                            if let Some(d) = diff_board(&b2, &want) {
                                rep.fail("C04", &format!("applier-position/{}", mv_class(pos, &mv)), format!("{} text move {}: {}", pos.fen(), text, d), self.edge_json(node, &mv, "text applier position vs rules"));
                            }
                            if b2.zobrist_key != want_key {
                                rep.fail("C04", &format!("applier-key/{}", mv_class(pos, &mv)), format!("{} text move {}: key {} != scratch {}", pos.fen(), text, b2.zobrist_key, want_key), self.edge_json(node, &mv, "text applier key vs scratch key"));
                            } else if b2.zobrist_key != succ.zobrist_key {
                                // applier right, generator wrong: the generator's defect (C05), still an inequality of the two producers
                                rep.fail("C05", "generator-vs-applier-key", format!("{} move {}", pos.fen(), text), self.edge_json(node, &mv, "generator key vs applier key"));
                            }
                            bump(l, "edges_replayed_through_text_applier");
                        }
                    }
                }
                if (self.focus.applier || self.focus.keys) && mv.promo == rules::Q {
                    // a promotion whose fifth letter the applier does not know: whatever board the engine decides
                    // to build for it (it documents "default to queen"), the key it keeps must be the key of THAT
                    // board (C05: the key depends on the position only). The oracle reads the engine's own board
                    // back, so it demands nothing about which piece is chosen; a panic is no verdict here.
                    for letter in ['k', 'p', 'x', 'Q', '0'] {
                        let text = format!("{}{}", &mv.uci()[..4], letter);
                        let mut b3 = board.clone();
                        if catch_unwind(AssertUnwindSafe(|| crate::uci::verif_make_move(&mut b3, &text, h))).is_ok() {
                            if let Some(p3) = pos_of_board(&b3) {
                                let k3 = scratch_key(&p3, h);
                                if b3.zobrist_key != k3 {
                                    let prop = if rep.property == "C04" { "C04" } else { "C05" };
                                    rep.fail(prop, "applier-key/unknown-promotion-letter", format!("{} text move {}: the applier built {} but keeps key {} != scratch key {} of that board", pos.fen(), text, p3.fen(), b3.zobrist_key, k3), self.edge_json(node, &mv, &format!("text applier key vs scratch key of its own board, text move {}", text)));
                                }
                                bump(l, "promotions_replayed_with_an_unknown_fifth_letter");
                            }
                        }
                    }
                }
                // (promotions are extended in the thorough tier only; the promo+rights family follows them anyway)
                let special = pos.is_castle(&mv) || pos.is_en_passant(&mv) || (mv.promo != 0 && !self.rep.quick());
                if expand || (extend && special) {
                    if !ok {
                        bump(l, "states_where_engine_object_and_true_position_differ");
                    }
                    if !expand {
                        bump(l, "special_moves_followed_one_ply_beyond_the_depth_limit");
                    }
                    let child = Node {
                        pos: want,
                        promo: succ.pawn_promotion,
                        oh: succ.order_heuristic,
                        last: succ.last_move,
                        cap: false,
                        cap_len: 0,
                        diverged: if ok { None } else { Some(Box::new(succ.clone())) },
                        ext: !expand,
                        root: node.root.clone(),
                        path: Some(Arc::new(PathNode { parent: node.path.clone(), mv, cap: false })),
                        depth: node.depth + 1,
                    };
                    out.push(child);
                }
            }
        }

        // -------------------------------------------------------------------- capture-only generation
        if self.focus.captures {
            let gen = catch_unwind(AssertUnwindSafe(|| generate_moves(&board, MoveGenerationMode::CapturesOnly, h)));
            let succs = match gen {
                Ok(s) => s,
                Err(e) => {
                    rep.fail("C13", "generator-panic", format!("capture-only generation panicked on {}: {}", pos.fen(), panic_text(e)), node.replay_json("generate_moves(CapturesOnly)"));
                    return;
                }
            };
            self.transitions.fetch_add(succs.len() as u64, Ordering::Relaxed);
            let oracle_caps: Vec<Mv> = oracle_moves.iter().filter(|m| pos.is_capture(m)).cloned().collect();
            if !oracle_caps.is_empty() {
                bump(l, "states_with_captures");
            }
            if oracle_caps.iter().any(|m| pos.is_en_passant(m)) {
                bump(l, "capture_states_with_en_passant");
            }
            if oracle_caps.iter().any(|m| m.promo != 0) {
                bump(l, "capture_states_with_capture_promotion");
            }
            let mut engine_moves: Vec<Option<Mv>> = succs.iter().map(|s| move_of_successor(pos, s)).collect();
            self.compare_lists("C13", "captures-only", node, &mut engine_moves, &oracle_caps);
            let mut used: Vec<Mv> = Vec::new();
            for (succ, mv) in succs.iter().zip(engine_moves.iter()) {
                let mv = match mv {
                    Some(m) => *m,
                    None => continue,
                };
                // a capturing pawn that reaches the last rank without becoming a piece shows as promo == 0
                let is_unpromoted = rules::kind_of(pos.b[mv.from as usize]) == rules::P && (rules::rank_of(mv.to) == 7 || rules::rank_of(mv.to) == 0) && mv.promo == 0;
                if is_unpromoted || !oracle_caps.contains(&mv) || used.contains(&mv) {
                    continue;
                }
                used.push(mv);
                let want = pos.make(&mv);
                let mut ok = true;
                if let Some(d) = diff_board(succ, &want) {
                    rep.fail("C13", &format!("successor-position/{}{}", mv_class(pos, &mv), if pos.ep.is_some() { "/parent-has-ep-target" } else { "" }), format!("capture-only: {} after {}: {}", pos.fen(), mv.uci(), d), self.edge_json(node, &mv, "capture-only successor vs rules"));
                    ok = false;
                }
                if succ.zobrist_key != scratch_key(&want, h) {
                    if ok {
                        rep.fail("C13", &format!("successor-key/{}", mv_class(pos, &mv)), format!("capture-only: {} after {}: key differs from scratch key", pos.fen(), mv.uci()), self.edge_json(node, &mv, "capture-only successor key"));
                    }
                    ok = false;
                }
                // with much material the tree of capture sequences is astronomically large: chains from such
                // states are followed to a stated length only (reported as a cap)
                let heavy = pos.b.iter().filter(|x| **x != 0).count() > 12;
                // more than six sliders of one colour (only the king-rays family has that): every capture is
                // answered by a dozen recaptures, the chains are cut at length 3 in both tiers
                let slider_heavy = heavy && [rules::WHITE, rules::BLACK].iter().any(|c| pos.b.iter().filter(|x| **x != 0 && rules::color_of(**x) == *c && matches!(rules::kind_of(**x), k if k == rules::Q || k == rules::R || k == rules::B)).count() > 6);
                if heavy && node.cap_len >= if slider_heavy { 3 } else { self.cap_chain_limit_heavy } {
                    bump(l, "capture_chains_cut_at_the_length_cap_for_positions_with_more_than_12_pieces");
                    continue;
                }
                {
                    let child = Node {
                        pos: want,
                        promo: succ.pawn_promotion,
                        oh: succ.order_heuristic,
                        last: succ.last_move,
                        cap: true,
                        cap_len: node.cap_len + 1,
                        diverged: if ok { None } else { Some(Box::new(succ.clone())) },
                        ext: node.ext,
                        root: node.root.clone(),
                        path: Some(Arc::new(PathNode { parent: node.path.clone(), mv, cap: true })),
                        depth: node.depth, // capture chains do not consume the depth budget: they run to their end
                    };
                    out.push(child);
                }
            }
        }

        // -------------------------------------------------------------------- whole path through `position`
        if self.focus.path_replay && !node.cap && node.depth > 0 {
            self.replay_path(node, l);
        }
    }

    fn edge_json(&self, node: &Node, mv: &Mv, what: &str) -> J {
        node.replay_json(what).set("move", J::s(&mv.uci()))
    }

    /// multiset comparison of the engine's list with the oracle's list
    fn compare_lists(&self, prop: &str, mode: &str, node: &Node, engine: &mut [Option<Mv>], oracle: &[Mv]) {
        let pos = &node.pos;
        let mut e: Vec<Mv> = engine.iter().flatten().cloned().collect();
        e.sort();
        let mut o: Vec<Mv> = oracle.to_vec();
        o.sort();
        if e == o {
            return;
        }
        let describe = |v: &[Mv]| v.iter().map(|m| m.uci()).collect::<Vec<_>>().join(" ");
        // duplicates
        for w in e.windows(2) {
            if w[0] == w[1] {
                self.rep.fail(prop, &format!("{}/duplicate/{}", mode, mv_class(pos, &w[0])), format!("{}: move {} generated twice", pos.fen(), w[0].uci()), self.edge_json(node, &w[0], "duplicate move").set("engine_moves", J::s(&describe(&e))).set("rules_moves", J::s(&describe(&o))));
            }
        }
        for m in e.iter() {
            if !o.contains(m) {
                let mut class = mv_class(pos, m).to_string();
                if class == "castling" {
                    // say why the rules forbid it
                    let them = pos.stm ^ 1;
                    let home = rules::rank_of(m.from);
                    let transit = rules::sq_at((rules::file_of(m.from) + rules::file_of(m.to)) / 2, home).unwrap();
                    let by_king = |sq: u8| {
                        let k = pos.king_sq(them).unwrap();
                        (rules::file_of(k) - rules::file_of(sq)).abs() <= 1 && (rules::rank_of(k) - rules::rank_of(sq)).abs() <= 1
                    };
                    if by_king(transit) || by_king(m.to) {
                        class.push_str("/square-attacked-by-enemy-king");
                    }
                }
                if class == "pawn-move" && (rules::rank_of(m.to) == 7 || rules::rank_of(m.to) == 0) {
                    class = "pawn-reaches-last-rank-unpromoted".to_string();
                }
                if class == "en-passant" || (rules::kind_of(pos.b[m.from as usize]) == rules::P && rules::file_of(m.from) != rules::file_of(m.to) && pos.b[m.to as usize] == rules::EMPTY) {
                    class = if pos.ep == Some(m.to) { "en-passant".to_string() } else { "en-passant-without-target".to_string() };
                }
                self.rep.fail(prop, &format!("{}/extra/{}", mode, class), format!("{}: engine generates {} which the rules do not allow; engine [{}] rules [{}]", pos.fen(), m.uci(), describe(&e), describe(&o)), self.edge_json(node, m, "extra move").set("engine_moves", J::s(&describe(&e))).set("rules_moves", J::s(&describe(&o))));
            }
        }
        for m in o.iter() {
            if !e.contains(m) {
                self.rep.fail(prop, &format!("{}/missing/{}", mode, mv_class(pos, m)), format!("{}: engine does not generate {}; engine [{}] rules [{}]", pos.fen(), m.uci(), describe(&e), describe(&o)), self.edge_json(node, m, "missing move").set("engine_moves", J::s(&describe(&e))).set("rules_moves", J::s(&describe(&o))));
            }
        }
    }

    /// Send the node's whole tree path through the real `position` handler and compare
    fn replay_path(&self, node: &Node, l: &mut Local) {
        let moves: Vec<String> = node.path_moves().into_iter().map(|(m, _)| m).collect();
        let root_fen: &str = &node.root;
        let mut variants: Vec<String> = vec![format!("position fen {} moves {}", root_fen, moves.join(" "))];
        if root_fen == crate::board::DEFAULT_FEN_STRING {
            variants.push(format!("position startpos moves {}", moves.join(" ")));
        }
        for cmd in variants {
            let tokens: Vec<&str> = cmd.split(' ').collect();
            let mut table = DrawTable::new();
            let r = catch_unwind(AssertUnwindSafe(|| crate::uci::verif_play_out_position(&tokens, &self.h, &mut table)));
            self.paths_replayed.fetch_add(1, Ordering::Relaxed);
            match r {
                Err(e) => self.rep.fail("C04", "position-command-panic", format!("'{}' panicked: {}", cmd, panic_text(e)), node.replay_json("position command").set("command", J::s(&cmd))),
                Ok(b) => {
                    if self.focus.descriptor && self.rep.property == "C03" {
                        // C03 for positions set by startpos/FEN plus a move list: the answer to a go is always one of the
                        // root's generated successors (shown for every expiry point and schedule elsewhere), so every
                        // successor generated from the board THIS command built must be a legal move of the true position
                        if let Ok(succs) = catch_unwind(AssertUnwindSafe(|| generate_moves(&b, MoveGenerationMode::AllMoves, &self.h))) {
                            let legal = node.pos.legal_moves();
                            for sc in &succs {
                                let ok = move_of_successor(&node.pos, sc).map(|m| legal.contains(&m)).unwrap_or(false);
                                if !ok {
                                    self.rep.fail("C03", "go-after-this-position-command-can-answer-an-illegal-move", format!("'{}': the engine would consider {:?} which is not a legal move of {}", cmd, last_move_sq(sc).map(|(f, t)| format!("{}{}", rules::sq_name(f), rules::sq_name(t))), node.pos.fen()), node.replay_json("root successors after a position command").set("command", J::s(&cmd)));
                                }
                            }
                            if succs.len() != legal.len() {
                                self.rep.fail("C03", "go-after-this-position-command-misses-legal-moves", format!("'{}': {} root successors, {} legal moves", cmd, succs.len(), legal.len()), node.replay_json("root successors after a position command").set("command", J::s(&cmd)));
                            }
                        }
                    }
                    if self.focus.eval_purity {
                        compare_eval(self.rep, &b, &node.pos, reference_eval(&node.pos), "position command", node.replay_json("evaluation of the board built by the position command").set("command", J::s(&cmd)));
                    }
                    if self.focus.check_detection {
                        // the board a whole `position ... moves ...` command builds carries the king cache of every
                        // move applied on the way
                        compare_check_detection(self.rep, &b, &node.pos, "position command", node.replay_json("is_check on the board built by the position command").set("command", J::s(&cmd)));
                    }
                    if let Some(d) = diff_board(&b, &node.pos) {
                        self.rep.fail("C04", "position-command-position", format!("'{}': {}", cmd, d), node.replay_json("position command vs rules").set("command", J::s(&cmd)));
                    }
                    if b.zobrist_key != scratch_key(&node.pos, &self.h) {
                        self.rep.fail("C04", "position-command-key", format!("'{}': key {} != scratch {}", cmd, b.zobrist_key, scratch_key(&node.pos, &self.h)), node.replay_json("position command key").set("command", J::s(&cmd)));
                    }
                    let total: u64 = table.table.values().map(|c| *c as u64).sum();
                    if total != moves.len() as u64 + 1 {
                        self.rep.fail("C10", "record-total", format!("'{}': record holds {} occurrences for {} positions", cmd, total, moves.len() + 1), node.replay_json("repetition record total").set("command", J::s(&cmd)));
                    }
                    bump(l, "paths_replayed_through_position_command");
                }
            }
        }
    }

    /// Single-threaded exploration of a root list (used by the family work items; the visited map is shared)
    pub fn explore_local(&self, roots: Vec<Node>, max_depth: u16, l: &mut Local) {
        let mut stack: Vec<Node> = Vec::new();
        for r in roots {
            if self.first_visit(r.key(), max_depth.saturating_sub(r.depth)) {
                stack.push(r);
            }
        }
        let mut out: Vec<Node> = Vec::new();
        while let Some(node) = stack.pop() {
            out.clear();
            self.check_node(&node, max_depth, &mut out, l);
            for c in out.drain(..) {
                if self.first_visit(c.key(), max_depth.saturating_sub(c.depth)) {
                    stack.push(c);
                }
            }
        }
    }

    /// Level-synchronous parallel BFS. `depth_of(root index)` limits the depth per root node.
    /// Returns per-level sizes.
    pub fn bfs(&self, roots: Vec<Node>, max_depth: u16, budget: u64) -> Vec<usize> {
        let mut frontier: Vec<Node> = Vec::new();
        for r in roots {
            if self.first_visit(r.key(), max_depth.saturating_sub(r.depth)) {
                frontier.push(r);
            }
        }
        let mut levels = Vec::new();
        let start_states = self.states.load(Ordering::Relaxed);
        loop {
            if frontier.is_empty() {
                break;
            }
            levels.push(frontier.len());
            let next: Mutex<Vec<Node>> = Mutex::new(Vec::new());
            let idx = AtomicUsize::new(0);
            let chunk = 256;
            let fr = &frontier;
            std::thread::scope(|s| {
                for _ in 0..self.threads {
                    s.spawn(|| {
                        let mut local: Local = BTreeMap::new();
                        let mut out: Vec<Node> = Vec::new();
                        let mut keep: Vec<Node> = Vec::new();
                        loop {
                            let i = idx.fetch_add(chunk, Ordering::Relaxed);
                            if i >= fr.len() {
                                break;
                            }
                            for node in &fr[i..(i + chunk).min(fr.len())] {
                                out.clear();
                                self.check_node(node, max_depth, &mut out, &mut local);
                                for c in out.drain(..) {
                                    if self.first_visit(c.key(), max_depth.saturating_sub(c.depth)) {
                                        keep.push(c);
                                    }
                                }
                            }
                            if keep.len() > 50_000 {
                                next.lock().unwrap().append(&mut keep);
                            }
                        }
                        next.lock().unwrap().append(&mut keep);
                        self.rep.merge_counters(&local);
                    });
                }
            });
            let mut next = next.into_inner().unwrap();
            let done = self.states.load(Ordering::Relaxed) - start_states;
            if done + next.len() as u64 > budget {
                let allowed = budget.saturating_sub(done) as usize;
                // deterministic truncation
                next.sort_by_key(|n| n.key());
                let dropped = next.len() - allowed.min(next.len());
                next.truncate(allowed);
                if dropped > 0 {
                    self.rep.note(format!("node budget {} reached: level {} truncated, {} states not expanded (cap reported, not exhaustive beyond the previous level)", budget, levels.len(), dropped));
                    self.rep.add("states_dropped_by_budget", dropped as u64);
                }
            }
            frontier = next;
        }
        levels
    }
}

/// Follow a recorded path (engine successors; a trailing * = capture-only step) from a root FEN
pub fn walk(ex: &Explorer, root_fen: &str, path: &[String]) -> Result<Node, String> {
    let pos = Pos::from_fen(root_fen).ok_or("bad root fen")?;
    let mut node = Node::root(pos);
    node.root = Arc::new(root_fen.to_string());
    for step in path {
        let cap = step.ends_with('*');
        let mv = Mv::from_uci(step.trim_end_matches('*')).ok_or("bad move in path")?;
        let board = node.board(&ex.h);
        let succs = generate_moves(&board, if cap { MoveGenerationMode::CapturesOnly } else { MoveGenerationMode::AllMoves }, &ex.h);
        let succ = succs.iter().find(|s| move_of_successor(&node.pos, s) == Some(mv)).ok_or(format!("the engine no longer generates {} from {}", mv.uci(), node.pos.fen()))?;
        node = Node { pos: node.pos.make(&mv), promo: succ.pawn_promotion, oh: succ.order_heuristic, last: succ.last_move, cap, cap_len: if cap { node.cap_len + 1 } else { 0 }, diverged: if diff_board(succ, &node.pos.make(&mv)).is_some() || succ.zobrist_key != scratch_key(&node.pos.make(&mv), &ex.h) { Some(Box::new(succ.clone())) } else { None }, ext: false, root: node.root.clone(), path: Some(Arc::new(PathNode { parent: node.path.clone(), mv, cap })), depth: node.depth + 1 };
    }
    Ok(node)
}

// ------------------------------------------------------------------------------------------------ roots

/// S1 roots: (fen, quick depth, thorough depth)
pub const S1_ROOTS: &[(&str, u16, u16)] = &[
    ("rnbqkbnr/pppppppp/8/8/8/8/PPPPPPPP/RNBQKBNR w KQkq - 0 1", 3, 5),
    ("r3k2r/p1ppqpb1/bn2pnp1/3PN3/1p2P3/2N2Q1p/PPPBBPPP/R3K2R w KQkq - 0 1", 2, 4),
    ("8/2p5/3p4/KP5r/1R3p1k/8/4P1P1/8 w - - 0 1", 4, 6),
    ("r3k2r/Pppp1ppp/1b3nbN/nP6/BBP1P3/q4N2/Pp1P2PP/R2Q1RK1 w kq - 0 1", 3, 4),
    ("r2q1rk1/pP1p2pp/Q4n2/bbp1p3/Np6/1B3NBn/pPPP1PPP/R3K2R b KQ - 0 1", 3, 4),
    ("rnbq1k1r/pp1Pbppp/2p5/8/2B5/8/PPP1NnPP/RNBQK2R w KQ - 1 8", 2, 4),
    ("r4rk1/1pp1qppp/p1np1n2/2b1p1B1/2B1P1b1/P1NP1N2/1PP1QPPP/R4RK1 w - - 0 10", 2, 4),
    // special-purpose perft positions
    ("3k4/3p4/8/K1P4r/8/8/8/8 b - - 0 1", 5, 7),
    ("8/8/4k3/8/2p5/8/B2P2K1/8 w - - 0 1", 5, 7),
    ("8/8/1k6/2b5/2pP4/8/5K2/8 b - d3 0 1", 5, 7),
    ("5k2/8/8/8/8/8/8/4K2R w K - 0 1", 5, 7),
    ("3k4/8/8/8/8/8/8/R3K3 w Q - 0 1", 5, 7),
    ("r3k2r/1b4bq/8/8/8/8/7B/R3K2R w KQkq - 0 1", 3, 5),
    ("r3k2r/8/3Q4/8/8/5q2/8/R3K2R b KQkq - 0 1", 3, 5),
    ("2K2r2/4P3/8/8/8/8/8/3k4 w - - 0 1", 5, 7),
    ("8/8/1P2K3/8/2n5/1q6/8/5k2 b - - 0 1", 4, 6),
    ("4k3/1P6/8/8/8/8/K7/8 w - - 0 1", 6, 8),
    ("8/P1k5/K7/8/8/8/8/8 w - - 0 1", 6, 8),
    ("K1k5/8/P7/8/8/8/8/8 w - - 0 1", 6, 8),
    ("8/k1P5/8/1K6/8/8/8/8 w - - 0 1", 6, 8),
    ("8/8/2k5/5q2/5n2/8/5K2/8 b - - 0 1", 4, 6),
    // crafted low-material roots: castling, en passant, promotion, corner-rook captures 1-3 plies away
    ("r3k2r/8/8/8/8/8/8/R3K2R w KQkq - 0 1", 4, 5),
    ("r3k2r/8/8/8/8/8/8/R3K2R b KQkq - 0 1", 4, 5),
    ("1n2k2r/P7/8/8/8/8/8/4K3 w k - 0 1", 4, 6),
    ("4k3/8/8/8/8/8/p7/1N2K2R b K - 0 1", 4, 6),
    ("r3k3/1P6/8/8/8/8/1p6/R3K3 w Qq - 0 1", 4, 6),
    ("4k3/2p1p3/8/3P4/3p4/8/2P1P3/4K3 w - - 0 1", 5, 7),
    ("4k3/8/8/K2pP2r/8/8/8/8 w - d6 0 1", 4, 6),
    ("8/8/8/8/k2Pp2R/8/8/4K3 b - d3 0 1", 4, 6),
    ("4k3/8/8/8/1p6/8/P1P5/4K3 w - - 0 1", 5, 7),
    ("6k1/8/8/8/8/6b1/5P2/4K2R w K - 0 1", 4, 6),
    ("8/8/8/8/8/8/6k1/4K2R w K - 0 1", 4, 6),
    ("r3k3/8/8/8/8/8/1K6/8 b q - 0 1", 4, 6),
    ("rn2k3/1P6/8/8/8/8/8/4K3 w q - 0 1", 4, 6),
    ("4k2r/6P1/8/8/8/8/8/4K3 w k - 0 1", 4, 6),
    ("4k3/8/8/8/8/8/6p1/4K2R b K - 0 1", 4, 6),
    ("4k3/8/8/8/3pP3/8/7r/4K2R b K e3 0 1", 4, 5),
    ("1r2k3/P7/8/8/8/8/8/4K3 w - - 0 1", 4, 6),
];

pub fn s1_roots(quick: bool) -> Vec<(Node, u16)> {
    S1_ROOTS
        .iter()
        .map(|(fen, dq, dt)| {
            let pos = Pos::from_fen(fen).unwrap_or_else(|| crate::report::machinery_error(&format!("bad root {}", fen)));
            if !pos.is_legal_position() {
                crate::report::machinery_error(&format!("root {} is not a legal position", fen));
            }
            let mut n = Node::root(pos);
            n.root = Arc::new(fen.to_string());
            (n, if quick { *dq } else { *dt })
        })
        .collect()
}

// ------------------------------------------------------------------------------------------------ S2 families

const WHITE_TYPES: [u8; 5] = [rules::Q, rules::R, rules::B, rules::N, rules::P];

fn all_pieces() -> Vec<u8> {
    let mut v = Vec::new();
    for c in [rules::WHITE, rules::BLACK] {
        for k in WHITE_TYPES {
            v.push(rules::pc(c, k));
        }
    }
    v
}

fn pawn_rank_ok(p: u8, sq: u8) -> bool {
    rules::kind_of(p) != rules::P || (rules::rank_of(sq) != 0 && rules::rank_of(sq) != 7)
}

/// K + k + at most one further piece, anywhere, both sides to move (legal positions only)
pub fn family_kkx(wk_range: std::ops::Range<u8>) -> Vec<Pos> {
    let mut out = Vec::new();
    let pieces = all_pieces();
    for wk in wk_range {
        for bk in 0..64u8 {
            if bk == wk {
                continue;
            }
            let mut base = Pos::empty();
            base.b[wk as usize] = rules::pc(rules::WHITE, rules::K);
            base.b[bk as usize] = rules::pc(rules::BLACK, rules::K);
            for stm in [rules::WHITE, rules::BLACK] {
                let mut p0 = base;
                p0.stm = stm;
                if p0.is_legal_position() {
                    out.push(p0);
                }
                for &x in &pieces {
                    for sq in 0..64u8 {
                        if sq == wk || sq == bk || !pawn_rank_ok(x, sq) {
                            continue;
                        }
                        let mut p = p0;
                        p.b[sq as usize] = x;
                        if p.is_legal_position() {
                            out.push(p);
                        }
                    }
                }
            }
        }
    }
    out
}

/// King-ray product family: the mover's king on d4 (mirrored: d5 for black) and, independently on each of
/// the eight rays from it, one configuration out of an alphabet — nothing; an enemy slider that does not
/// attack along this ray (bishop on a file/rank, rook on a diagonal) at distance 2; two of them at distances
/// 2 and 3; an own knight at distance 1 pinned by the right slider at distance 2; (thorough) an own queen at
/// distance 1 pinned by an enemy queen at distance 3; a pinned knight with a further slider behind the pinner;
/// a plain check from distance 2. Every combination: up to eight simultaneous pins, two pins on one line, up
/// to sixteen enemy sliders around the king. `first` fixes the configuration of the first two rays (work item).
pub fn family_king_rays(color: u8, n_cfg: usize, first: usize) -> Vec<Pos> {
    const DIRS: [(i8, i8); 8] = [(0, 1), (1, 1), (1, 0), (1, -1), (0, -1), (-1, -1), (-1, 0), (-1, 1)];
    let king = rules::sq_at(3, 3).unwrap(); // d4: three squares to the edge in every direction
    let own = rules::WHITE;
    let en = rules::BLACK;
    let mut out = Vec::new();
    let total = n_cfg.pow(6);
    for rest in 0..total {
        let mut cfgs = [0usize; 8];
        cfgs[0] = first / n_cfg;
        cfgs[1] = first % n_cfg;
        let mut x = rest;
        for c in cfgs.iter_mut().skip(2) {
            *c = x % n_cfg;
            x /= n_cfg;
        }
        let mut p = Pos::empty();
        p.b[king as usize] = rules::pc(own, rules::K);
        p.b[rules::sq_from_name("a8").unwrap() as usize] = rules::pc(en, rules::K);
        for (d, &(df, dr)) in DIRS.iter().enumerate() {
            let sq = |k: i8| rules::sq_at(3 + df * k, 3 + dr * k).unwrap() as usize;
            let diagonal = df != 0 && dr != 0;
            let right = rules::pc(en, if diagonal { rules::B } else { rules::R });
            let wrong = rules::pc(en, if diagonal { rules::R } else { rules::B });
            match cfgs[d] {
                0 => {}
                1 => p.b[sq(2)] = wrong,
                2 => {
                    p.b[sq(2)] = wrong;
                    p.b[sq(3)] = wrong;
                }
                3 => {
                    p.b[sq(1)] = rules::pc(own, rules::N);
                    p.b[sq(2)] = right;
                }
                4 => {
                    p.b[sq(1)] = rules::pc(own, rules::Q);
                    p.b[sq(3)] = rules::pc(en, rules::Q);
                }
                5 => {
                    p.b[sq(1)] = rules::pc(own, rules::N);
                    p.b[sq(2)] = right;
                    p.b[sq(3)] = wrong;
                }
                _ => p.b[sq(2)] = right,
            }
        }
        // material a game can produce: at most 15 men beside the king, at most 8 of them promoted
        let mut ok = true;
        for c in [own, en] {
            let cnt = |k: u8| p.count(rules::pc(c, k)) as i32;
            let men = cnt(rules::Q) + cnt(rules::R) + cnt(rules::B) + cnt(rules::N);
            let promoted = (cnt(rules::Q) - 1).max(0) + (cnt(rules::R) - 2).max(0) + (cnt(rules::B) - 2).max(0) + (cnt(rules::N) - 2).max(0);
            if men > 15 || promoted > 8 {
                ok = false;
            }
        }
        if !ok {
            continue;
        }
        p.stm = own;
        let q = if color == rules::WHITE { p } else { p.mirror() };
        if q.is_legal_position() {
            out.push(q);
        }
    }
    out
}

/// Castling with the king's own pawns in front of it: king and rook(s) at home with rights, every subset of the
/// pawns on the c/d/e/f/g files of the second rank (the squares in front of the king's path), the enemy king on
/// one of a few squares, one enemy queen/rook/bishop/knight anywhere. White built directly, black by mirroring.
pub fn family_castle_shield(color: u8, rights_cfg: usize) -> Vec<Pos> {
    let mut out = Vec::new();
    let shield_files: [i8; 5] = [2, 3, 4, 5, 6];
    for mask in 0..32u32 {
        for ek in [rules::sq_from_name("e8").unwrap(), rules::sq_from_name("a8").unwrap(), rules::sq_from_name("h5").unwrap()] {
            let mut base = Pos::empty();
            base.b[rules::sq_from_name("e1").unwrap() as usize] = rules::pc(rules::WHITE, rules::K);
            base.b[ek as usize] = rules::pc(rules::BLACK, rules::K);
            if rights_cfg != 1 {
                base.b[rules::sq_from_name("h1").unwrap() as usize] = rules::pc(rules::WHITE, rules::R);
                base.rights |= rules::WK;
            }
            if rights_cfg != 0 {
                base.b[rules::sq_from_name("a1").unwrap() as usize] = rules::pc(rules::WHITE, rules::R);
                base.rights |= rules::WQ;
            }
            for (i, f) in shield_files.iter().enumerate() {
                if mask & (1 << i) != 0 {
                    base.b[rules::sq_at(*f, 1).unwrap() as usize] = rules::pc(rules::WHITE, rules::P);
                }
            }
            for kind in [rules::Q, rules::R, rules::B, rules::N] {
                for sq in 0..64u8 {
                    if base.b[sq as usize] != rules::EMPTY {
                        continue;
                    }
                    let mut p = base;
                    p.b[sq as usize] = rules::pc(rules::BLACK, kind);
                    p.stm = rules::WHITE;
                    let q = if color == rules::WHITE { p } else { p.mirror() };
                    if q.is_legal_position() {
                        out.push(q);
                    }
                }
            }
        }
    }
    out
}

/// two further pieces (thorough): wk fixed per work item
pub fn family_kkxy(wk: u8, bk: u8) -> Vec<Pos> {
    let mut out = Vec::new();
    if wk == bk {
        return out;
    }
    let pieces = all_pieces();
    let mut base = Pos::empty();
    base.b[wk as usize] = rules::pc(rules::WHITE, rules::K);
    base.b[bk as usize] = rules::pc(rules::BLACK, rules::K);
    for (i, &x) in pieces.iter().enumerate() {
        for &y in &pieces[i..] {
            for s1 in 0..64u8 {
                if s1 == wk || s1 == bk || !pawn_rank_ok(x, s1) {
                    continue;
                }
                let s2_start = if x == y { s1 + 1 } else { 0 };
                for s2 in s2_start..64u8 {
                    if s2 == wk || s2 == bk || s2 == s1 || !pawn_rank_ok(y, s2) {
                        continue;
                    }
                    for stm in [rules::WHITE, rules::BLACK] {
                        let mut p = base;
                        p.stm = stm;
                        p.b[s1 as usize] = x;
                        p.b[s2 as usize] = y;
                        if p.is_legal_position() {
                            out.push(p);
                        }
                    }
                }
            }
        }
    }
    out
}

/// Castling family for one colour: king at home with rook(s) and rights, enemy king anywhere,
/// plus `extra` (0..=2) further pieces anywhere; both sides to move.
pub fn family_castle(color: u8, extra: usize, second_piece_types: &[u8], only_ek: u8) -> Vec<Pos> {
    let mut out = Vec::new();
    let home = if color == rules::WHITE { 0 } else { 7 };
    let e = rules::sq_at(4, home).unwrap();
    let hr = rules::sq_at(7, home).unwrap();
    let ar = rules::sq_at(0, home).unwrap();
    let (kbit, qbit) = if color == rules::WHITE { (rules::WK, rules::WQ) } else { (rules::BK, rules::BQ) };
    // (rook on h, rook on a, rights)
    let configs: [(bool, bool, u8); 5] = [(true, false, kbit), (false, true, qbit), (true, true, kbit), (true, true, qbit), (true, true, kbit | qbit)];
    let pieces = all_pieces();
    for (h_rook, a_rook, rights) in configs {
        let mut base = Pos::empty();
        base.b[e as usize] = rules::pc(color, rules::K);
        if h_rook {
            base.b[hr as usize] = rules::pc(color, rules::R);
        }
        if a_rook {
            base.b[ar as usize] = rules::pc(color, rules::R);
        }
        base.rights = rights;
        for ek in only_ek..=only_ek {
            if base.b[ek as usize] != rules::EMPTY {
                continue;
            }
            let mut b1 = base;
            b1.b[ek as usize] = rules::pc(color ^ 1, rules::K);
            for stm in [rules::WHITE, rules::BLACK] {
                let mut b2 = b1;
                b2.stm = stm;
                if b2.is_legal_position() {
                    out.push(b2);
                }
                if extra == 0 {
                    continue;
                }
                for &x in &pieces {
                    for s1 in 0..64u8 {
                        if b2.b[s1 as usize] != rules::EMPTY || !pawn_rank_ok(x, s1) {
                            continue;
                        }
                        let mut b3 = b2;
                        b3.b[s1 as usize] = x;
                        if b3.is_legal_position() {
                            out.push(b3);
                        }
                        if extra < 2 {
                            continue;
                        }
                        for &y in second_piece_types {
                            for s2 in 0..64u8 {
                                if b3.b[s2 as usize] != rules::EMPTY || !pawn_rank_ok(y, s2) || (x == y && s2 < s1) {
                                    continue;
                                }
                                let mut b4 = b3;
                                b4.b[s2 as usize] = y;
                                if b4.is_legal_position() {
                                    out.push(b4);
                                }
                            }
                        }
                    }
                }
            }
        }
    }
    out
}

/// En-passant family: a pawn of `mover` has just double-stepped (target set), enemy pawn(s) beside it,
/// kings as given by the mode, one further slider/knight (or none) anywhere.
pub fn family_ep(mover: u8, only_file: i8) -> Vec<Pos> {
    let mut v = Vec::new();
    for side in 0..3 {
        v.extend(family_ep_side(mover, only_file, side));
    }
    v
}

/// one capturer configuration (0: capturer on the left, 1: on the right, 2: both) — a finer work item
pub fn family_ep_side(mover: u8, only_file: i8, only_side: usize) -> Vec<Pos> {
    family_ep_side_thin(mover, only_file, only_side, false)
}

/// `thin`: only no further piece or one queen of either colour (what pins and discovered checks need is C01's
/// business; the text applier and the successor fields do not depend on the kind of the further piece)
pub fn family_ep_side_thin(mover: u8, only_file: i8, only_side: usize, thin: bool) -> Vec<Pos> {
    let mut out = Vec::new();
    let capturer = mover ^ 1;
    let (pawn_rank, target_rank) = if mover == rules::WHITE { (3i8, 2i8) } else { (4i8, 5i8) };
    let extras: Vec<u8> = {
        let mut v = vec![rules::EMPTY];
        for c in [rules::WHITE, rules::BLACK] {
            for k in [rules::Q, rules::R, rules::B, rules::N] {
                if !thin || k == rules::Q {
                    v.push(rules::pc(c, k));
                }
            }
        }
        v
    };
    let fixed_squares: [u8; 4] = [63, 56, 7, 0];
    for f in only_file..=only_file {
        for side in only_side..=only_side {
            // 0: capturer on the left, 1: on the right, 2: both
            let lefts = side == 0 || side == 2;
            let rights_ = side == 1 || side == 2;
            if (lefts && f == 0) || (rights_ && f == 7) {
                continue;
            }
            let mut base = Pos::empty();
            base.b[rules::sq_at(f, pawn_rank).unwrap() as usize] = rules::pc(mover, rules::P);
            if lefts {
                base.b[rules::sq_at(f - 1, pawn_rank).unwrap() as usize] = rules::pc(capturer, rules::P);
            }
            if rights_ {
                base.b[rules::sq_at(f + 1, pawn_rank).unwrap() as usize] = rules::pc(capturer, rules::P);
            }
            base.ep = rules::sq_at(f, target_rank);
            base.stm = capturer;
            // mode 0: capturer's king anywhere, mover's king on the first fixed square that gives a legal position
            // mode 1: mover's king anywhere, capturer's king fixed
            for mode in 0..2 {
                let (free_color, fixed_color) = if mode == 0 { (capturer, mover) } else { (mover, capturer) };
                for ks in 0..64u8 {
                    if base.b[ks as usize] != rules::EMPTY {
                        continue;
                    }
                    let mut b1 = base;
                    b1.b[ks as usize] = rules::pc(free_color, rules::K);
                    for &x in &extras {
                        for xs in 0..64u8 {
                            if x == rules::EMPTY && xs > 0 {
                                break;
                            }
                            if x != rules::EMPTY && b1.b[xs as usize] != rules::EMPTY {
                                continue;
                            }
                            let mut b2 = b1;
                            if x != rules::EMPTY {
                                b2.b[xs as usize] = x;
                            }
                            for &fk in &fixed_squares {
                                if b2.b[fk as usize] != rules::EMPTY {
                                    continue;
                                }
                                let mut b3 = b2;
                                b3.b[fk as usize] = rules::pc(fixed_color, rules::K);
                                if b3.is_legal_position() {
                                    out.push(b3);
                                    break;
                                }
                            }
                        }
                    }
                }
            }
        }
    }
    out
}

/// En passant with a discovered check through the captured pawn's square: a slider of the capturing side,
/// the victim pawn and the victim's king on one line (victim between, nothing else between), plus one further
/// piece of the checked side anywhere (the piece that may or may not be allowed to move afterwards).
pub fn family_ep_discovered(mover: u8, only_file: i8) -> Vec<Pos> {
    family_ep_discovered_with(mover, only_file, false)
}

/// `attacker_extra`: the further piece is a queen or rook of the CAPTURING side (mating nets) instead of a
/// piece of the checked side
pub fn family_ep_discovered_with(mover: u8, only_file: i8, attacker_extra: bool) -> Vec<Pos> {
    let mut out = Vec::new();
    let capturer = mover ^ 1;
    let (pawn_rank, target_rank) = if mover == rules::WHITE { (3i8, 2i8) } else { (4i8, 5i8) };
    let fixed_squares: [u8; 6] = [63, 56, 7, 0, 60, 4];
    let f = only_file;
    for side in 0..2 {
        let cf = if side == 0 { f - 1 } else { f + 1 };
        if !(0..8).contains(&cf) {
            continue;
        }
        let victim = rules::sq_at(f, pawn_rank).unwrap();
        let mut base = Pos::empty();
        base.b[victim as usize] = rules::pc(mover, rules::P);
        base.b[rules::sq_at(cf, pawn_rank).unwrap() as usize] = rules::pc(capturer, rules::P);
        base.ep = rules::sq_at(f, target_rank);
        base.stm = capturer;
        // lines through the victim square: both diagonals and the rank
        for (df, dr) in [(1i8, 1i8), (1, -1), (1, 0)] {
            for dir in [1i8, -1] {
                // slider on one side, king on the other
                for ds in 1..8i8 {
                    let ssq = match rules::sq_at(f + dir * df * ds, pawn_rank + dir * dr * ds) {
                        Some(x) => x,
                        None => break,
                    };
                    if base.b[ssq as usize] != rules::EMPTY {
                        break;
                    }
                    for dk in 1..8i8 {
                        let ksq = match rules::sq_at(f - dir * df * dk, pawn_rank - dir * dr * dk) {
                            Some(x) => x,
                            None => break,
                        };
                        if base.b[ksq as usize] != rules::EMPTY {
                            break;
                        }
                        let sliders: &[u8] = if dr == 0 { &[rules::R, rules::Q] } else { &[rules::B, rules::Q] };
                        for &sk in sliders {
                            let mut b1 = base;
                            b1.b[ssq as usize] = rules::pc(capturer, sk);
                            b1.b[ksq as usize] = rules::pc(mover, rules::K);
                            let extra_kinds: &[u8] = if attacker_extra { &[rules::R, rules::Q] } else { &[rules::N, rules::B, rules::R, rules::Q, rules::P] };
                            let extra_color = if attacker_extra { capturer } else { mover };
                            for &xk in extra_kinds {
                                for xs in 0..64u8 {
                                    if b1.b[xs as usize] != rules::EMPTY || !pawn_rank_ok(rules::pc(extra_color, xk), xs) {
                                        continue;
                                    }
                                    let mut b2 = b1;
                                    b2.b[xs as usize] = rules::pc(extra_color, xk);
                                    for &fk in &fixed_squares {
                                        if b2.b[fk as usize] != rules::EMPTY {
                                            continue;
                                        }
                                        let mut b3 = b2;
                                        b3.b[fk as usize] = rules::pc(capturer, rules::K);
                                        if b3.is_legal_position() {
                                            out.push(b3);
                                            break;
                                        }
                                    }
                                }
                            }
                        }
                    }
                }
            }
        }
    }
    out
}

/// Promotion family: pawn of `color` one step from promotion, kings per mode, one enemy piece (or none)
/// anywhere; with `with_rights` the enemy king sits at home with rook(s) and rights (corner captures).
pub fn family_promo(color: u8, with_rights: bool, only_file: i8) -> Vec<Pos> {
    family_promo_cfg(color, with_rights, only_file, None)
}

/// `only_cfg`: one of the three rook/right configurations of the variant with rights (finer work item)
pub fn family_promo_cfg(color: u8, with_rights: bool, only_file: i8, only_cfg: Option<usize>) -> Vec<Pos> {
    let mut out = Vec::new();
    let enemy = color ^ 1;
    let pawn_rank = if color == rules::WHITE { 6i8 } else { 1i8 };
    let enemy_home = if color == rules::WHITE { 7i8 } else { 0i8 };
    let mut extras: Vec<u8> = vec![rules::EMPTY];
    for k in [rules::Q, rules::R, rules::B, rules::N, rules::P] {
        extras.push(rules::pc(enemy, k));
    }
    let fixed_squares: [u8; 6] = [0, 7, 56, 63, 27, 36];
    for f in only_file..=only_file {
        let mut base = Pos::empty();
        base.b[rules::sq_at(f, pawn_rank).unwrap() as usize] = rules::pc(color, rules::P);
        base.stm = color;
        if with_rights {
            let (kbit, qbit) = if enemy == rules::WHITE { (rules::WK, rules::WQ) } else { (rules::BK, rules::BQ) };
            for (ci, (h_rook, a_rook, rights)) in [(true, false, kbit), (false, true, qbit), (true, true, kbit | qbit)].into_iter().enumerate() {
                if only_cfg.map(|c| c != ci).unwrap_or(false) {
                    continue;
                }
                let mut b0 = base;
                b0.b[rules::sq_at(4, enemy_home).unwrap() as usize] = rules::pc(enemy, rules::K);
                if h_rook {
                    b0.b[rules::sq_at(7, enemy_home).unwrap() as usize] = rules::pc(enemy, rules::R);
                }
                if a_rook {
                    b0.b[rules::sq_at(0, enemy_home).unwrap() as usize] = rules::pc(enemy, rules::R);
                }
                b0.rights = rights;
                for ks in 0..64u8 {
                    if b0.b[ks as usize] != rules::EMPTY {
                        continue;
                    }
                    let mut b1 = b0;
                    b1.b[ks as usize] = rules::pc(color, rules::K);
                    for &x in &extras {
                        for xs in 0..64u8 {
                            if x == rules::EMPTY && xs > 0 {
                                break;
                            }
                            if x != rules::EMPTY && (b1.b[xs as usize] != rules::EMPTY || !pawn_rank_ok(x, xs)) {
                                continue;
                            }
                            let mut b2 = b1;
                            if x != rules::EMPTY {
                                b2.b[xs as usize] = x;
                            }
                            if b2.is_legal_position() {
                                out.push(b2);
                            }
                        }
                    }
                }
            }
            continue;
        }
        for mode in 0..2 {
            let (free_color, fixed_color) = if mode == 0 { (color, enemy) } else { (enemy, color) };
            for ks in 0..64u8 {
                if base.b[ks as usize] != rules::EMPTY {
                    continue;
                }
                let mut b1 = base;
                b1.b[ks as usize] = rules::pc(free_color, rules::K);
                for &x in &extras {
                    for xs in 0..64u8 {
                        if x == rules::EMPTY && xs > 0 {
                            break;
                        }
                        if x != rules::EMPTY && (b1.b[xs as usize] != rules::EMPTY || !pawn_rank_ok(x, xs)) {
                            continue;
                        }
                        let mut b2 = b1;
                        if x != rules::EMPTY {
                            b2.b[xs as usize] = x;
                        }
                        for &fk in &fixed_squares {
                            if b2.b[fk as usize] != rules::EMPTY {
                                continue;
                            }
                            let mut b3 = b2;
                            b3.b[fk as usize] = rules::pc(fixed_color, rules::K);
                            if b3.is_legal_position() {
                                out.push(b3);
                                break;
                            }
                        }
                    }
                }
            }
        }
    }
    out
}

// ------------------------------------------------------------------------------------------------ driver

pub struct E1Result {
    pub states: u64,
    pub transitions: u64,
    pub validated: u64,
    pub exhaustive: bool,
}

/// Run S1 + S2 for the report's property.
pub fn run(rep: &Report, focus: Focus) -> E1Result {
    let quick = rep.quick();
    // the oracle must reproduce the published perft totals before anything is believed
    let (tests, nodes) = match rules::self_test(if quick || focus.check_detection || focus.eval_purity || focus.pv_descriptor { 1_300_000 } else { u64::MAX }) {
        Ok(x) => x,
        Err(e) => crate::report::machinery_error(&format!("oracle self-test failed: {}", e)),
    };
    rep.add("oracle_selftest_perft_totals_reproduced", tests as u64);
    rep.add("oracle_selftest_nodes", nodes);
    rep.assume("128-bit fingerprints of canonical states do not collide (probability < 1e-23 for 3e7 states)");
    rep.assume("the rules oracle (harness/src/rules.rs) is right; it reproduces the published perft totals of 21 positions on every run");

    let ex = Explorer::new(rep, focus);
    let mut exhaustive = true;
    let mut family_summary: Vec<J> = Vec::new();

    // ---- S1: reach graph, roots grouped by depth limit so that each group is one BFS
    // the producer passes of C06, C14 and C18 are secondary to those properties' own enumerations: their thorough
    // tier walks the quick tier's reach graph to its full quick depth (one ply more than their quick tier)
    let secondary = focus.check_detection || focus.eval_purity || focus.pv_descriptor;
    // (C13 follows every capture chain below every state: its thorough tier keeps the quick tier's reach graph,
    // at its full depth, and the families without the extra plies; Kk+X and castle+2 are added)
    let roots = s1_roots(quick || secondary || focus.captures);
    let follow = !quick && !focus.captures;
    let budget: u64 = if quick { if focus.captures { 2_000_000 } else { 1_000_000 } } else { 40_000_000 };
    let mut by_depth: BTreeMap<u16, Vec<Node>> = BTreeMap::new();
    for (n, d) in roots {
        // capture chains multiply the work below every state: the quick tier of C13 goes one ply less deep
        let d = if focus.captures || ((focus.check_detection || focus.eval_purity || focus.pv_descriptor) && quick) { d.saturating_sub(1).max(1) } else { d };
        by_depth.entry(d).or_default().push(n);
    }
    for (d, group) in by_depth {
        let n_roots = group.len();
        let before = ex.states.load(Ordering::Relaxed);
        let dropped_before = rep.get("states_dropped_by_budget");
        let levels = ex.bfs(group, d, budget);
        let dropped = rep.get("states_dropped_by_budget") - dropped_before;
        if dropped > 0 {
            exhaustive = false;
        }
        family_summary.push(
            J::obj()
                .set("space", J::s("S1 reach graph"))
                .set("roots", J::u(n_roots))
                .set("depth_limit", J::Int(d as i128))
                .set("levels", J::Arr(levels.iter().map(|x| J::u(*x)).collect()))
                .set("states", J::Int((ex.states.load(Ordering::Relaxed) - before) as i128))
                .set("complete", J::Bool(dropped == 0)),
        );
    }

    // ---- S2: small-scope families, each enumerated completely. A family is a list of work items;
    // every worker generates the roots of its item and explores them (shared visited map).
    type Item = Box<dyn Fn() -> Vec<Pos> + Sync + Send>;
    let mut run_family = |name: &str, items: Vec<Item>, depth: u16| {
        let before = ex.states.load(Ordering::Relaxed);
        let t0 = std::time::Instant::now();
        let roots_n = AtomicU64::new(0);
        let idx = AtomicUsize::new(0);
        std::thread::scope(|s| {
            for _ in 0..ex.threads {
                s.spawn(|| {
                    let mut local: Local = BTreeMap::new();
                    loop {
                        let i = idx.fetch_add(1, Ordering::Relaxed);
                        if i >= items.len() {
                            break;
                        }
                        let roots = (items[i])();
                        roots_n.fetch_add(roots.len() as u64, Ordering::Relaxed);
                        ex.explore_local(roots.into_iter().map(Node::root).collect(), depth, &mut local);
                    }
                    rep.merge_counters(&local);
                });
            }
        });
        if std::env::var("WMC_PROGRESS").is_ok() {
            eprintln!("[e1] family {}: {} states in {:.1} s", &name[..name.len().min(30)], ex.states.load(Ordering::Relaxed) - before, t0.elapsed().as_secs_f64());
        }
        family_summary.push(
            J::obj()
                .set("space", J::s(&format!("S2 family {}", name)))
                .set("roots", J::Int(roots_n.load(Ordering::Relaxed) as i128))
                .set("depth_limit", J::Int(depth as i128))
                .set("states", J::Int((ex.states.load(Ordering::Relaxed) - before) as i128))
                .set("wall_s", J::Num(t0.elapsed().as_secs_f64()))
                .set("complete", J::Bool(true)),
        );
    };

    // K+k+X : 64 items by white king square (not in the quick tier of C13: with one further piece a capture
    // chain has length one; the family is part of C13's thorough tier)
    if !(focus.captures && quick) && !focus.skip_kkx && !(focus.skip_kkx_only && quick) {
    run_family(
        "Kk+X (both kings anywhere, at most one further piece of any type anywhere, both sides to move)",
        (0..64u8).map(|wk| Box::new(move || family_kkx(wk..wk + 1)) as Item).collect(),
        0,
    );
    }
    // castling
    if !focus.eval_purity {
        let mut items: Vec<Item> = Vec::new();
        for c in [rules::WHITE, rules::BLACK] {
            for ek in 0..64u8 {
                items.push(Box::new(move || family_castle(c, 1, &[], ek)));
            }
        }
        run_family(
            "castle (king+rook(s) at home with rights, enemy king anywhere, one further piece anywhere, both sides to move)",
            items,
            if follow { 1 } else { 0 },
        );
        {
            let mut items: Vec<Item> = Vec::new();
            for c in [rules::WHITE, rules::BLACK] {
                for cfg in 0..3usize {
                    items.push(Box::new(move || family_castle_shield(c, cfg)));
                }
            }
            run_family("castle-shield (king and rook(s) at home with rights, every subset of the own pawns on c2..g2, one enemy queen/rook/bishop/knight anywhere)", items, 0);
        }
        if !quick {
            // second piece: every enemy piece type (attackers of the transit squares) and an own knight (blocker)
            let mut items: Vec<Item> = Vec::new();
            for c in [rules::WHITE, rules::BLACK] {
                for ek in 0..64u8 {
                    items.push(Box::new(move || {
                        let enemy = c ^ 1;
                        let second = [rules::pc(enemy, rules::Q), rules::pc(enemy, rules::R), rules::pc(enemy, rules::B), rules::pc(enemy, rules::N), rules::pc(enemy, rules::P), rules::pc(c, rules::N)];
                        family_castle(c, 2, &second, ek)
                    }));
                }
            }
            run_family("castle+2 (as castle, with a second piece: any enemy piece or an own knight)", items, 0);
        }
    }
    // en passant (left to C02 for C03's printed-text oracle, like Kk+X)
    if !focus.skip_kkx {
        let mut items: Vec<Item> = Vec::new();
        for c in [rules::WHITE, rules::BLACK] {
            for f in 0..8i8 {
                for side in 0..3usize {
                    let thin = focus.skip_kkx_only && quick;
                    items.push(Box::new(move || family_ep_side_thin(c, f, side, thin)));
                }
            }
        }
        run_family(
            "ep (pawn just double-stepped with target set, enemy pawn left/right/both, one king anywhere, one slider/knight of either colour anywhere)",
            items,
            if follow { 1 } else { 0 },
        );
        let mut items: Vec<Item> = Vec::new();
        for c in [rules::WHITE, rules::BLACK] {
            for f in 0..8i8 {
                items.push(Box::new(move || family_ep_discovered(c, f)));
            }
        }
        run_family(
            "ep-discovered (slider, victim pawn and the victim's king on one line, one further piece of the checked side anywhere; the capture is followed one ply)",
            items,
            if follow { 1 } else { 0 },
        );
    }
    // promotion (not needed for C06's producer pass nor for C18's descriptor pass)
    if !focus.check_detection && !focus.pv_descriptor {
        let mut items: Vec<Item> = Vec::new();
        let mut items_r: Vec<Item> = Vec::new();
        for c in [rules::WHITE, rules::BLACK] {
            for f in 0..8i8 {
                items.push(Box::new(move || family_promo(c, false, f)));
                for cfg in 0..3usize {
                    items_r.push(Box::new(move || family_promo_cfg(c, true, f, Some(cfg))));
                }
            }
        }
        run_family("promo (pawn one step from promotion, one king anywhere, one enemy piece anywhere)", items, if follow { 1 } else { 0 });
        if !focus.eval_purity {
        run_family("promo+rights (as promo, enemy king and rook(s) at home with castling rights; followed one ply further so that castling right after a promotion occurs)", items_r, if follow { 2 } else { 1 });
        }
    }
    // pins and sliders all round the king (the legality filter's hardest input), complete product
    if !focus.skip_kkx && !focus.eval_purity && !focus.keys {
        // (capture chains below sixteen sliders do not end in reasonable time: C13 keeps the small alphabet)
        let n_cfg: usize = if quick || focus.captures { 4 } else { 7 };
        let mut items: Vec<Item> = Vec::new();
        for c in [rules::WHITE, rules::BLACK] {
            for first in 0..n_cfg * n_cfg {
                items.push(Box::new(move || family_king_rays(c, n_cfg, first)));
            }
        }
        run_family("king-rays (king on d4/d5, each of the eight rays independently: empty, harmless slider(s), pinned knight, pinned queen, pin with a slider behind, check)", items, 0);
    }
    if !quick && std::env::var("WMC_KKXY").is_ok() {
        let items: Vec<Item> = (0..64u32 * 64).map(|i| Box::new(move || family_kkxy((i / 64) as u8, (i % 64) as u8)) as Item).collect();
        run_family("Kk+XY (two further pieces of any types anywhere)", items, 0);
    }

    rep.set_extra("spaces", J::Arr(family_summary));
    rep.add("transpositions_witnessed_same_state_reached_by_another_route", ex.transpositions.load(Ordering::Relaxed));
    E1Result {
        states: ex.states.load(Ordering::Relaxed),
        transitions: ex.transitions.load(Ordering::Relaxed),
        validated: ex.paths_replayed.load(Ordering::Relaxed) + tests as u64,
        exhaustive,
    }
}

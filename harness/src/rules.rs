//! Independent rules oracle (reference model). 8x8 board, squares 0..63 (a1 = 0, h1 = 7, a8 = 56).
//! Deliberately boring and structurally different from the engine: no sentinels, attack test computed
//! *forward* from each enemy piece, legality by make + attack test.
#![allow(dead_code)]

pub const EMPTY: u8 = 0;
pub const WHITE: u8 = 0;
pub const BLACK: u8 = 1;
// piece kinds
pub const P: u8 = 1;
pub const N: u8 = 2;
pub const B: u8 = 3;
pub const R: u8 = 4;
pub const Q: u8 = 5;
pub const K: u8 = 6;
// rights bits
pub const WK: u8 = 1;
pub const WQ: u8 = 2;
pub const BK: u8 = 4;
pub const BQ: u8 = 8;

#[inline]
pub fn pc(color: u8, kind: u8) -> u8 {
    kind | (color << 3)
}
#[inline]
pub fn kind_of(p: u8) -> u8 {
    p & 7
}
#[inline]
pub fn color_of(p: u8) -> u8 {
    p >> 3
}
#[inline]
pub fn file_of(sq: u8) -> i8 {
    (sq & 7) as i8
}
#[inline]
pub fn rank_of(sq: u8) -> i8 {
    (sq >> 3) as i8
}
#[inline]
pub fn sq_at(file: i8, rank: i8) -> Option<u8> {
    if (0..8).contains(&file) && (0..8).contains(&rank) {
        Some((rank * 8 + file) as u8)
    } else {
        None
    }
}

#[derive(Clone, Copy, PartialEq, Eq, Hash, Debug)]
pub struct Pos {
    pub b: [u8; 64],
    pub stm: u8,
    pub rights: u8,
    pub ep: Option<u8>,
}

#[derive(Clone, Copy, PartialEq, Eq, Hash, Debug, PartialOrd, Ord)]
pub struct Mv {
    pub from: u8,
    pub to: u8,
    pub promo: u8, // 0 or N,B,R,Q
}

pub fn sq_name(sq: u8) -> String {
    format!("{}{}", (b'a' + (sq & 7)) as char, (b'1' + (sq >> 3)) as char)
}

pub fn sq_from_name(s: &str) -> Option<u8> {
    let b = s.as_bytes();
    if b.len() != 2 || !(b'a'..=b'h').contains(&b[0]) || !(b'1'..=b'8').contains(&b[1]) {
        return None;
    }
    Some((b[1] - b'1') * 8 + (b[0] - b'a'))
}

impl Mv {
    pub fn uci(&self) -> String {
        let mut s = format!("{}{}", sq_name(self.from), sq_name(self.to));
        match self.promo {
            N => s.push('n'),
            B => s.push('b'),
            R => s.push('r'),
            Q => s.push('q'),
            _ => {}
        }
        s
    }
    pub fn from_uci(s: &str) -> Option<Mv> {
        if s.len() < 4 || s.len() > 5 || !s.is_ascii() {
            return None;
        }
        let from = sq_from_name(&s[0..2])?;
        let to = sq_from_name(&s[2..4])?;
        let promo = if s.len() == 5 {
            match &s[4..5] {
                "n" => N,
                "b" => B,
                "r" => R,
                "q" => Q,
                _ => return None,
            }
        } else {
            0
        };
        Some(Mv { from, to, promo })
    }
}

const KNIGHT_D: [(i8, i8); 8] = [(1, 2), (2, 1), (2, -1), (1, -2), (-1, -2), (-2, -1), (-2, 1), (-1, 2)];
const KING_D: [(i8, i8); 8] = [(1, 0), (1, 1), (0, 1), (-1, 1), (-1, 0), (-1, -1), (0, -1), (1, -1)];
const ROOK_D: [(i8, i8); 4] = [(1, 0), (-1, 0), (0, 1), (0, -1)];
const BISHOP_D: [(i8, i8); 4] = [(1, 1), (1, -1), (-1, 1), (-1, -1)];

impl Pos {
    pub fn empty() -> Pos {
        Pos { b: [EMPTY; 64], stm: WHITE, rights: 0, ep: None }
    }

    pub fn king_sq(&self, color: u8) -> Option<u8> {
        let k = pc(color, K);
        (0..64u8).find(|&s| self.b[s as usize] == k)
    }

    pub fn count(&self, piece: u8) -> usize {
        self.b.iter().filter(|&&x| x == piece).count()
    }

    /// Does the piece standing on `from` attack `target` (rules of movement only)?
    fn piece_attacks(&self, from: u8, target: u8) -> bool {
        let p = self.b[from as usize];
        if p == EMPTY || from == target {
            return false;
        }
        let (ff, fr) = (file_of(from), rank_of(from));
        let (tf, tr) = (file_of(target), rank_of(target));
        let (df, dr) = (tf - ff, tr - fr);
        match kind_of(p) {
            P => {
                let dir = if color_of(p) == WHITE { 1 } else { -1 };
                dr == dir && (df == 1 || df == -1)
            }
            N => (df.abs() == 1 && dr.abs() == 2) || (df.abs() == 2 && dr.abs() == 1),
            K => df.abs() <= 1 && dr.abs() <= 1,
            B => df.abs() == dr.abs() && self.clear_between(from, target),
            R => (df == 0 || dr == 0) && self.clear_between(from, target),
            Q => (df == 0 || dr == 0 || df.abs() == dr.abs()) && self.clear_between(from, target),
            _ => false,
        }
    }

    /// squares strictly between two aligned squares are empty
    fn clear_between(&self, a: u8, b: u8) -> bool {
        let (af, ar) = (file_of(a), rank_of(a));
        let (bf, br) = (file_of(b), rank_of(b));
        let sf = (bf - af).signum();
        let sr = (br - ar).signum();
        let (mut f, mut r) = (af + sf, ar + sr);
        while (f, r) != (bf, br) {
            if self.b[(r * 8 + f) as usize] != EMPTY {
                return false;
            }
            f += sf;
            r += sr;
        }
        true
    }

    /// Is `sq` attacked by any piece of colour `by`?
    pub fn attacked(&self, sq: u8, by: u8) -> bool {
        for from in 0..64u8 {
            let p = self.b[from as usize];
            if p != EMPTY && color_of(p) == by && self.piece_attacks(from, sq) {
                return true;
            }
        }
        false
    }

    /// number of pieces of colour `by` attacking sq
    pub fn attackers(&self, sq: u8, by: u8) -> usize {
        (0..64u8)
            .filter(|&from| {
                let p = self.b[from as usize];
                p != EMPTY && color_of(p) == by && self.piece_attacks(from, sq)
            })
            .count()
    }

    pub fn in_check(&self, color: u8) -> bool {
        match self.king_sq(color) {
            Some(k) => self.attacked(k, color ^ 1),
            None => false,
        }
    }

    fn push_pawn_move(out: &mut Vec<Mv>, from: u8, to: u8, color: u8) {
        let last = if color == WHITE { 7 } else { 0 };
        if rank_of(to) == last {
            for promo in [Q, N, B, R] {
                out.push(Mv { from, to, promo });
            }
        } else {
            out.push(Mv { from, to, promo: 0 });
        }
    }

    /// Pseudo-legal moves (castling fully validated here, everything else validated by make + attack test)
    pub fn pseudo_moves(&self) -> Vec<Mv> {
        let mut out = Vec::with_capacity(48);
        let us = self.stm;
        let them = us ^ 1;
        for from in 0..64u8 {
            let p = self.b[from as usize];
            if p == EMPTY || color_of(p) != us {
                continue;
            }
            let (f, r) = (file_of(from), rank_of(from));
            match kind_of(p) {
                P => {
                    let dir: i8 = if us == WHITE { 1 } else { -1 };
                    let start = if us == WHITE { 1 } else { 6 };
                    if let Some(one) = sq_at(f, r + dir) {
                        if self.b[one as usize] == EMPTY {
                            Self::push_pawn_move(&mut out, from, one, us);
                            if r == start {
                                if let Some(two) = sq_at(f, r + 2 * dir) {
                                    if self.b[two as usize] == EMPTY {
                                        out.push(Mv { from, to: two, promo: 0 });
                                    }
                                }
                            }
                        }
                    }
                    for df in [-1i8, 1] {
                        if let Some(to) = sq_at(f + df, r + dir) {
                            let t = self.b[to as usize];
                            if t != EMPTY && color_of(t) == them {
                                Self::push_pawn_move(&mut out, from, to, us);
                            } else if t == EMPTY && self.ep == Some(to) {
                                // en passant: the captured pawn stands beside the capturer
                                let victim = sq_at(f + df, r).unwrap();
                                if self.b[victim as usize] == pc(them, P) {
                                    out.push(Mv { from, to, promo: 0 });
                                }
                            }
                        }
                    }
                }
                N | K => {
                    let ds = if kind_of(p) == N { &KNIGHT_D } else { &KING_D };
                    for (df, dr) in ds.iter() {
                        if let Some(to) = sq_at(f + df, r + dr) {
                            let t = self.b[to as usize];
                            if t == EMPTY || color_of(t) == them {
                                out.push(Mv { from, to, promo: 0 });
                            }
                        }
                    }
                }
                B | R | Q => {
                    let mut dirs: Vec<(i8, i8)> = Vec::new();
                    if kind_of(p) != B {
                        dirs.extend_from_slice(&ROOK_D);
                    }
                    if kind_of(p) != R {
                        dirs.extend_from_slice(&BISHOP_D);
                    }
                    for (df, dr) in dirs {
                        let (mut cf, mut cr) = (f + df, r + dr);
                        while let Some(to) = sq_at(cf, cr) {
                            let t = self.b[to as usize];
                            if t == EMPTY {
                                out.push(Mv { from, to, promo: 0 });
                            } else {
                                if color_of(t) == them {
                                    out.push(Mv { from, to, promo: 0 });
                                }
                                break;
                            }
                            cf += df;
                            cr += dr;
                        }
                    }
                }
                _ => {}
            }
        }
        // castling: right present, king and rook at home, squares between empty,
        // king's square, transit square and destination not attacked by any enemy piece (king included)
        let (home, kbit, qbit) = if us == WHITE { (0i8, WK, WQ) } else { (7i8, BK, BQ) };
        let e = sq_at(4, home).unwrap();
        if self.b[e as usize] == pc(us, K) {
            if self.rights & kbit != 0
                && self.b[sq_at(7, home).unwrap() as usize] == pc(us, R)
                && self.b[sq_at(5, home).unwrap() as usize] == EMPTY
                && self.b[sq_at(6, home).unwrap() as usize] == EMPTY
                && !self.attacked(e, them)
                && !self.attacked(sq_at(5, home).unwrap(), them)
                && !self.attacked(sq_at(6, home).unwrap(), them)
            {
                out.push(Mv { from: e, to: sq_at(6, home).unwrap(), promo: 0 });
            }
            if self.rights & qbit != 0
                && self.b[sq_at(0, home).unwrap() as usize] == pc(us, R)
                && self.b[sq_at(1, home).unwrap() as usize] == EMPTY
                && self.b[sq_at(2, home).unwrap() as usize] == EMPTY
                && self.b[sq_at(3, home).unwrap() as usize] == EMPTY
                && !self.attacked(e, them)
                && !self.attacked(sq_at(3, home).unwrap(), them)
                && !self.attacked(sq_at(2, home).unwrap(), them)
            {
                out.push(Mv { from: e, to: sq_at(2, home).unwrap(), promo: 0 });
            }
        }
        out
    }

    pub fn is_castle(&self, m: &Mv) -> bool {
        kind_of(self.b[m.from as usize]) == K && (file_of(m.from) - file_of(m.to)).abs() == 2
    }

    pub fn is_en_passant(&self, m: &Mv) -> bool {
        kind_of(self.b[m.from as usize]) == P
            && file_of(m.from) != file_of(m.to)
            && self.b[m.to as usize] == EMPTY
    }

    pub fn is_capture(&self, m: &Mv) -> bool {
        self.b[m.to as usize] != EMPTY || self.is_en_passant(m)
    }

    /// Position after the move (the move must be pseudo-legal)
    pub fn make(&self, m: &Mv) -> Pos {
        let mut n = *self;
        let p = self.b[m.from as usize];
        let us = color_of(p);
        n.ep = None;
        if self.is_en_passant(m) {
            let victim = sq_at(file_of(m.to), rank_of(m.from)).unwrap();
            n.b[victim as usize] = EMPTY;
        }
        if self.is_castle(m) {
            let home = rank_of(m.from);
            if file_of(m.to) == 6 {
                n.b[sq_at(7, home).unwrap() as usize] = EMPTY;
                n.b[sq_at(5, home).unwrap() as usize] = pc(us, R);
            } else {
                n.b[sq_at(0, home).unwrap() as usize] = EMPTY;
                n.b[sq_at(3, home).unwrap() as usize] = pc(us, R);
            }
        }
        n.b[m.from as usize] = EMPTY;
        n.b[m.to as usize] = if m.promo != 0 { pc(us, m.promo) } else { p };
        if kind_of(p) == P && (rank_of(m.from) - rank_of(m.to)).abs() == 2 {
            // target set on every double step, as FEN does
            n.ep = sq_at(file_of(m.from), (rank_of(m.from) + rank_of(m.to)) / 2);
        }
        // rights: king move, rook move from a corner, capture on a corner
        if kind_of(p) == K {
            n.rights &= if us == WHITE { !(WK | WQ) } else { !(BK | BQ) };
        }
        for sq in [m.from, m.to] {
            match sq {
                0 => n.rights &= !WQ,
                7 => n.rights &= !WK,
                56 => n.rights &= !BQ,
                63 => n.rights &= !BK,
                _ => {}
            }
        }
        n.stm = self.stm ^ 1;
        n
    }

    pub fn legal_moves(&self) -> Vec<Mv> {
        let us = self.stm;
        self.pseudo_moves()
            .into_iter()
            .filter(|m| {
                let n = self.make(m);
                !n.in_check(us)
            })
            .collect()
    }

    pub fn legal_captures(&self) -> Vec<Mv> {
        self.legal_moves().into_iter().filter(|m| self.is_capture(m)).collect()
    }

    pub fn is_checkmate(&self) -> bool {
        self.in_check(self.stm) && self.legal_moves().is_empty()
    }

    pub fn is_stalemate(&self) -> bool {
        !self.in_check(self.stm) && self.legal_moves().is_empty()
    }

    /// The legality precondition of the properties: one king per side, the side not to move not in
    /// check, no pawns on the first or last rank, castling rights only with king and rook at home,
    /// en-passant target only directly behind a pawn that could just have double-stepped.
    pub fn is_legal_position(&self) -> bool {
        if self.count(pc(WHITE, K)) != 1 || self.count(pc(BLACK, K)) != 1 {
            return false;
        }
        for f in 0..8 {
            for r in [0i8, 7] {
                if kind_of(self.b[sq_at(f, r).unwrap() as usize]) == P {
                    return false;
                }
            }
        }
        if self.in_check(self.stm ^ 1) {
            return false;
        }
        let at = |f: i8, r: i8| self.b[sq_at(f, r).unwrap() as usize];
        if self.rights & (WK | WQ) != 0 && at(4, 0) != pc(WHITE, K) {
            return false;
        }
        if self.rights & WK != 0 && at(7, 0) != pc(WHITE, R) {
            return false;
        }
        if self.rights & WQ != 0 && at(0, 0) != pc(WHITE, R) {
            return false;
        }
        if self.rights & (BK | BQ) != 0 && at(4, 7) != pc(BLACK, K) {
            return false;
        }
        if self.rights & BK != 0 && at(7, 7) != pc(BLACK, R) {
            return false;
        }
        if self.rights & BQ != 0 && at(0, 7) != pc(BLACK, R) {
            return false;
        }
        if let Some(ep) = self.ep {
            let (f, r) = (file_of(ep), rank_of(ep));
            // white to move: black just double-stepped, target on rank 6 (index 5), pawn on rank 5, origin rank 7 empty
            let (tr, pr, or, mover) = if self.stm == WHITE { (5, 4, 6, BLACK) } else { (2, 3, 1, WHITE) };
            if r != tr || at(f, tr) != EMPTY || at(f, or) != EMPTY || at(f, pr) != pc(mover, P) {
                return false;
            }
        }
        true
    }

    pub fn fen(&self) -> String {
        self.fen_with_counters(0, 1)
    }

    pub fn fen_with_counters(&self, half: u32, full: u32) -> String {
        let mut s = String::new();
        for r in (0..8).rev() {
            let mut run = 0;
            for f in 0..8 {
                let p = self.b[(r * 8 + f) as usize];
                if p == EMPTY {
                    run += 1;
                } else {
                    if run > 0 {
                        s.push_str(&run.to_string());
                        run = 0;
                    }
                    s.push(piece_char(p));
                }
            }
            if run > 0 {
                s.push_str(&run.to_string());
            }
            if r > 0 {
                s.push('/');
            }
        }
        s.push(' ');
        s.push(if self.stm == WHITE { 'w' } else { 'b' });
        s.push(' ');
        if self.rights == 0 {
            s.push('-');
        } else {
            for (bit, c) in [(WK, 'K'), (WQ, 'Q'), (BK, 'k'), (BQ, 'q')] {
                if self.rights & bit != 0 {
                    s.push(c);
                }
            }
        }
        s.push(' ');
        match self.ep {
            Some(e) => s.push_str(&sq_name(e)),
            None => s.push('-'),
        }
        s.push_str(&format!(" {} {}", half, full));
        s
    }

    /// The oracle's own strict FEN reader (used for roots only)
    pub fn from_fen(fen: &str) -> Option<Pos> {
        let parts: Vec<&str> = fen.split_whitespace().collect();
        if parts.len() < 4 {
            return None;
        }
        let mut pos = Pos::empty();
        let rows: Vec<&str> = parts[0].split('/').collect();
        if rows.len() != 8 {
            return None;
        }
        for (i, row) in rows.iter().enumerate() {
            let r = 7 - i as i8;
            let mut f = 0i8;
            for ch in row.chars() {
                if let Some(d) = ch.to_digit(10) {
                    f += d as i8;
                } else {
                    let p = piece_from_char(ch)?;
                    pos.b[sq_at(f, r)? as usize] = p;
                    f += 1;
                }
            }
            if f != 8 {
                return None;
            }
        }
        pos.stm = match parts[1] {
            "w" => WHITE,
            "b" => BLACK,
            _ => return None,
        };
        for ch in parts[2].chars() {
            match ch {
                'K' => pos.rights |= WK,
                'Q' => pos.rights |= WQ,
                'k' => pos.rights |= BK,
                'q' => pos.rights |= BQ,
                '-' => {}
                _ => return None,
            }
        }
        pos.ep = if parts[3] == "-" { None } else { Some(sq_from_name(parts[3])?) };
        Some(pos)
    }

    pub fn perft(&self, depth: u32) -> u64 {
        if depth == 0 {
            return 1;
        }
        let moves = self.legal_moves();
        if depth == 1 {
            return moves.len() as u64;
        }
        moves.iter().map(|m| self.make(m).perft(depth - 1)).sum()
    }

    /// colour-mirrored twin: ranks flipped, colours swapped, side to move swapped
    pub fn mirror(&self) -> Pos {
        let mut n = Pos::empty();
        for sq in 0..64u8 {
            let p = self.b[sq as usize];
            if p != EMPTY {
                let t = sq_at(file_of(sq), 7 - rank_of(sq)).unwrap();
                n.b[t as usize] = pc(color_of(p) ^ 1, kind_of(p));
            }
        }
        n.stm = self.stm ^ 1;
        n.rights = ((self.rights & (WK | WQ)) << 2) | ((self.rights & (BK | BQ)) >> 2);
        n.ep = self.ep.map(|e| sq_at(file_of(e), 7 - rank_of(e)).unwrap());
        n
    }
}

pub fn piece_char(p: u8) -> char {
    let c = match kind_of(p) {
        P => 'p',
        N => 'n',
        B => 'b',
        R => 'r',
        Q => 'q',
        K => 'k',
        _ => '?',
    };
    if color_of(p) == WHITE {
        c.to_ascii_uppercase()
    } else {
        c
    }
}

pub fn piece_from_char(ch: char) -> Option<u8> {
    let kind = match ch.to_ascii_lowercase() {
        'p' => P,
        'n' => N,
        'b' => B,
        'r' => R,
        'q' => Q,
        'k' => K,
        _ => return None,
    };
    Some(pc(if ch.is_ascii_uppercase() { WHITE } else { BLACK }, kind))
}

/// Published perft totals the oracle must reproduce before anything is believed.
/// (fen, [(depth, nodes)])
pub const PERFT_SUITE: &[(&str, &[(u32, u64)])] = &[
    ("rnbqkbnr/pppppppp/8/8/8/8/PPPPPPPP/RNBQKBNR w KQkq - 0 1", &[(1, 20), (2, 400), (3, 8902), (4, 197281)]),
    ("r3k2r/p1ppqpb1/bn2pnp1/3PN3/1p2P3/2N2Q1p/PPPBBPPP/R3K2R w KQkq - 0 1", &[(1, 48), (2, 2039), (3, 97862)]),
    ("8/2p5/3p4/KP5r/1R3p1k/8/4P1P1/8 w - - 0 1", &[(1, 14), (2, 191), (3, 2812), (4, 43238), (5, 674624)]),
    ("r3k2r/Pppp1ppp/1b3nbN/nP6/BBP1P3/q4N2/Pp1P2PP/R2Q1RK1 w kq - 0 1", &[(1, 6), (2, 264), (3, 9467), (4, 422333)]),
    ("r2q1rk1/pP1p2pp/Q4n2/bbp1p3/Np6/1B3NBn/pPPP1PPP/R3K2R b KQ - 0 1", &[(1, 6), (2, 264), (3, 9467), (4, 422333)]),
    ("rnbq1k1r/pp1Pbppp/2p5/8/2B5/8/PPP1NnPP/RNBQK2R w KQ - 1 8", &[(1, 44), (2, 1486), (3, 62379)]),
    ("r4rk1/1pp1qppp/p1np1n2/2b1p1B1/2B1P1b1/P1NP1N2/1PP1QPPP/R4RK1 w - - 0 10", &[(1, 46), (2, 2079), (3, 89890)]),
    // special-purpose positions from the public perft suites (Martin Sedlak's collection)
    ("3k4/3p4/8/K1P4r/8/8/8/8 b - - 0 1", &[(6, 1134888)]), // illegal ep move #1
    ("8/8/4k3/8/2p5/8/B2P2K1/8 w - - 0 1", &[(6, 1015133)]), // illegal ep move #2
    ("8/8/1k6/2b5/2pP4/8/5K2/8 b - d3 0 1", &[(6, 1440467)]), // ep capture checks opponent
    ("5k2/8/8/8/8/8/8/4K2R w K - 0 1", &[(6, 661072)]),      // short castling gives check
    ("3k4/8/8/8/8/8/8/R3K3 w Q - 0 1", &[(6, 803711)]),      // long castling gives check
    ("r3k2r/1b4bq/8/8/8/8/7B/R3K2R w KQkq - 0 1", &[(4, 1274206)]), // castle rights
    ("r3k2r/8/3Q4/8/8/5q2/8/R3K2R b KQkq - 0 1", &[(4, 1720476)]), // castling prevented
    ("2K2r2/4P3/8/8/8/8/8/3k4 w - - 0 1", &[(6, 3821001)]),  // promote out of check
    ("8/8/1P2K3/8/2n5/1q6/8/5k2 b - - 0 1", &[(5, 1004658)]), // discovered check
    ("4k3/1P6/8/8/8/8/K7/8 w - - 0 1", &[(6, 217342)]),      // promote to give check
    ("8/P1k5/K7/8/8/8/8/8 w - - 0 1", &[(6, 92683)]),        // under promote to give check
    ("K1k5/8/P7/8/8/8/8/8 w - - 0 1", &[(6, 2217)]),         // self stalemate
    ("8/k1P5/8/1K6/8/8/8/8 w - - 0 1", &[(7, 567584)]),      // stalemate & checkmate
    ("8/8/2k5/5q2/5n2/8/5K2/8 b - - 0 1", &[(4, 23527)]),    // stalemate & checkmate
];

/// Run the self-test; Err(description) on the first mismatch. `deep` runs all depths, otherwise only
/// those below a node limit.
pub fn self_test(node_limit: u64) -> Result<(usize, u64), String> {
    let mut checked = 0;
    let mut nodes = 0;
    for (fen, depths) in PERFT_SUITE {
        let pos = Pos::from_fen(fen).ok_or_else(|| format!("oracle cannot read {}", fen))?;
        let a: Vec<String> = pos.fen().split(' ').take(4).map(|x| x.to_string()).collect();
        let b: Vec<String> = fen.split(' ').take(4).map(|x| x.to_string()).collect();
        if a != b {
            return Err(format!("oracle FEN writer does not round-trip {} -> {}", fen, pos.fen()));
        }
        for (d, expect) in depths.iter() {
            if *expect > node_limit {
                continue;
            }
            let got = pos.perft(*d);
            if got != *expect {
                return Err(format!("oracle perft({}) of {} = {}, published {}", d, fen, got, expect));
            }
            checked += 1;
            nodes += got;
        }
    }
    Ok((checked, nodes))
}

//! C10 — repetition record: exact counts after `position` (all paths to a depth + constructed n-fold
//! cycles) and the draw rule in search (E2 runs from every such history that offers a repetition move).
#![allow(dead_code)]
use crate::bridge::*;
use crate::draw_table::DrawTable;
use crate::e2_clockpoints::*;
use crate::json::J;
use crate::report::Report;
use crate::rules::{self, Mv, Pos};
use crate::zobrist::ZobristHasher;
use std::collections::HashMap;
use std::panic::{catch_unwind, AssertUnwindSafe};
use std::sync::atomic::{AtomicU64, AtomicUsize, Ordering};
use std::sync::Mutex;

/// (root fen, path depth quick, path depth thorough)
const PATH_ROOTS: &[(&str, usize, usize)] = &[
    ("8/8/k7/p7/P7/K7/8/8 w - - 0 1", 9, 11),      // blocked pawns: only king moves, tiny branching
    ("7k/8/8/8/8/8/8/K7 w - - 0 1", 7, 8),         // bare kings
    ("7k/8/8/8/8/8/R7/K7 w - - 0 1", 5, 6),        // KRK
    ("4k3/8/8/8/8/8/8/4K2R w K - 0 1", 5, 6),      // a castling right to lose: equal placements, different positions
    ("4k3/8/8/8/8/8/4P3/4K3 w - - 0 1", 6, 7),     // an en-passant target separates otherwise equal placements
    ("4k3/4p3/8/8/8/8/4P3/4K3 w - - 0 1", 5, 6),
    ("6k1/8/8/8/8/8/8/1N4K1 w - - 0 1", 5, 6),     // K+N vs K
    ("r3k3/8/8/8/8/8/8/4K2R b Kq - 0 1", 3, 4),
];

fn case(cmd: &str) -> J {
    J::obj().set("kind", J::s("c10-history")).set("position_command", J::s(cmd))
}

/// Check one `position` command against the reference multiset. Returns (final position, counts by position).
fn check_history(rep: &Report, h: &ZobristHasher, root_fen: &str, startpos: bool, moves: &[Mv]) -> Option<(crate::board::BoardState, DrawTable, Vec<Pos>)> {
    let root = Pos::from_fen(root_fen).unwrap();
    let mut cmd = if startpos { "position startpos".to_string() } else { format!("position fen {}", root_fen) };
    if !moves.is_empty() {
        cmd.push_str(" moves");
        for m in moves {
            cmd.push(' ');
            cmd.push_str(&m.uci());
        }
    }
    let tokens: Vec<&str> = cmd.split(' ').collect();
    let mut table = DrawTable::new();
    // the handler clears the record first, as the loop does
    table.clear();
    let board = match catch_unwind(AssertUnwindSafe(|| crate::uci::verif_play_out_position(&tokens, h, &mut table))) {
        Ok(b) => b,
        Err(e) => {
            rep.fail("C10", "position-command-panic", format!("'{}': {}", cmd, panic_text(e)), case(&cmd));
            return None;
        }
    };
    // reference multiset over the oracle's positions along the path
    let mut seq: Vec<Pos> = vec![root];
    for m in moves {
        if !seq.last().unwrap().legal_moves().contains(m) {
            // a wrong test input is not a verdict
            crate::report::machinery_error(&format!("the history sweep contains an illegal game: {} ({} is not legal)", cmd, m.uci()));
        }
        let next = seq.last().unwrap().make(m);
        seq.push(next);
    }
    let mut reference: HashMap<Pos, u32> = HashMap::new();
    for p in &seq {
        *reference.entry(*p).or_insert(0) += 1;
    }
    let mut expected_keys: HashMap<u64, u32> = HashMap::new();
    for (p, c) in &reference {
        let k = scratch_key(p, h);
        if let Some(prev) = expected_keys.insert(k, *c) {
            // two different positions under one key: a hash collision of the engine's table (not expected)
            rep.fail("C05", "key-collision-between-different-positions", format!("'{}': two positions share key {} ({} and {} occurrences)", cmd, k, prev, c), case(&cmd));
        }
    }
    for (p, c) in &reference {
        let k = scratch_key(p, h);
        let got = *table.table.get(&k).unwrap_or(&0) as u32;
        if got != *c {
            rep.fail("C10", if *c >= 3 { "count-wrong/threefold-or-more" } else { "count-wrong" }, format!("'{}': position {} occurred {} times, the record says {}", cmd, p.fen(), c, got), case(&cmd).set("position", J::s(&p.fen())));
        }
    }
    for (k, c) in table.table.iter() {
        if *c != 0 && !expected_keys.contains_key(k) {
            rep.fail("C10", "record-holds-a-position-that-did-not-occur", format!("'{}': key {} has count {} but no position of the game has that key", cmd, k, c), case(&cmd));
        }
    }
    let total: u64 = table.table.values().map(|c| *c as u64).sum();
    if total != seq.len() as u64 {
        rep.fail("C10", "record-total", format!("'{}': the record holds {} occurrences for {} positions", cmd, total, seq.len()), case(&cmd));
    }
    if let Some(d) = diff_board(&board, seq.last().unwrap()) {
        rep.fail("C04", "position-command-position", format!("'{}': {}", cmd, d), case(&cmd));
    }
    Some((board, table, seq))
}

/// A long legal game from the start position built with the rules oracle: quiet piece moves to the
/// least-visited position, and every `period` plies a pawn move or a capture (whichever leads to the
/// least-visited position). Returns the moves and the ply counts right after each irreversible move.
fn mixed_long_game(plies: usize, period: usize) -> (Vec<Mv>, Vec<usize>) {
    let mut pos = Pos::from_fen("rnbqkbnr/pppppppp/8/8/8/8/PPPPPPPP/RNBQKBNR w KQkq - 0 1").unwrap();
    let mut seen: HashMap<Pos, u32> = HashMap::new();
    seen.insert(pos, 1);
    let mut moves = Vec::new();
    let mut cuts = Vec::new();
    while moves.len() < plies {
        let want_irreversible = moves.len() % period == period - 1;
        let mut best: Option<(u32, bool, Mv, Pos)> = None;
        for mv in pos.legal_moves() {
            let irreversible = pos.is_capture(&mv) || rules::kind_of(pos.b[mv.from as usize]) == rules::P;
            let nx = pos.make(&mv);
            if nx.legal_moves().is_empty() || nx.b.iter().filter(|x| **x != 0).count() < 4 {
                continue; // keep the game going (and keep material to move around)
            }
            let n = *seen.get(&nx).unwrap_or(&0);
            // order: the wanted kind first, then least visited — except that every fifth ply goes back to
            // the most visited position on offer, so that the record holds counts above one as well
            let back = moves.len() % 5 == 4 && !want_irreversible;
            let rank = |n: u32| if back { 1000 - n.min(1000) } else { n };
            let key = (if irreversible == want_irreversible { 0 } else { 1 }, rank(n));
            let better = match &best {
                None => true,
                Some((bn, bi, _, _)) => key < (if *bi == want_irreversible { 0 } else { 1 }, rank(*bn)),
            };
            if better {
                best = Some((n, irreversible, mv, nx));
            }
        }
        let (n, irreversible, mv, nx) = match best {
            Some(b) => b,
            None => break,
        };
        if n >= 100 {
            break; // the statement's quantifier stops at 100 repetitions
        }
        *seen.entry(nx).or_insert(0) += 1;
        moves.push(mv);
        if irreversible {
            cuts.push(moves.len());
        }
        pos = nx;
    }
    (moves, cuts)
}

pub fn run(rep: &Report, session_part: Option<&dyn Fn(&Report) -> (u64, u64)>) -> i32 {
    let quick = rep.quick();
    let h = ZobristHasher::create_zobrist_hasher();
    let paths = AtomicU64::new(0);
    let edges = AtomicU64::new(0);
    let with_rep = AtomicU64::new(0);
    let max_count = AtomicU64::new(0);
    // histories that offer a move into a position which has already occurred at least twice
    let search_set: Mutex<Vec<(String, bool, Vec<Mv>, u32)>> = Mutex::new(Vec::new());

    // ---- A1: all move paths to a depth
    for (fen, dq, dt) in PATH_ROOTS {
        let depth = if quick { *dq } else { *dt };
        let root = Pos::from_fen(fen).unwrap();
        // work items: the first two plies
        let mut items: Vec<Vec<Mv>> = Vec::new();
        for m1 in root.legal_moves() {
            let p1 = root.make(&m1);
            let l2 = p1.legal_moves();
            if l2.is_empty() || depth < 2 {
                items.push(vec![m1]);
            }
            for m2 in l2 {
                items.push(vec![m1, m2]);
            }
        }
        check_history(rep, &h, fen, false, &[]);
        for m1 in root.legal_moves() {
            check_history(rep, &h, fen, false, &[m1]);
            paths.fetch_add(1, Ordering::Relaxed);
        }
        let idx = AtomicUsize::new(0);
        std::thread::scope(|s| {
            for _ in 0..threads() {
                s.spawn(|| loop {
                    let i = idx.fetch_add(1, Ordering::Relaxed);
                    if i >= items.len() {
                        break;
                    }
                    // DFS below the item
                    let mut stack: Vec<Vec<Mv>> = vec![items[i].clone()];
                    while let Some(path) = stack.pop() {
                        paths.fetch_add(1, Ordering::Relaxed);
                        edges.fetch_add(path.len() as u64, Ordering::Relaxed);
                        if let Some((_, table, seq)) = check_history(rep, &h, fen, false, &path) {
                            let mx = table.table.values().max().copied().unwrap_or(0) as u64;
                            max_count.fetch_max(mx, Ordering::Relaxed);
                            if mx >= 2 {
                                with_rep.fetch_add(1, Ordering::Relaxed);
                            }
                            let last = *seq.last().unwrap();
                            let legal = last.legal_moves();
                            // does the final position offer a repetition move?
                            let mut best_count = 0u32;
                            for m in &legal {
                                let c = seq.iter().filter(|p| **p == last.make(m)).count() as u32;
                                best_count = best_count.max(c);
                            }
                            if best_count >= 2 {
                                let mut ss = search_set.lock().unwrap();
                                if ss.len() < if quick { 3000 } else { 60000 } {
                                    ss.push((fen.to_string(), false, path.clone(), best_count));
                                }
                            }
                            if path.len() < depth {
                                for m in legal {
                                    let mut np = path.clone();
                                    np.push(m);
                                    stack.push(np);
                                }
                            }
                        }
                    }
                });
            }
        });
    }

    // ---- A2: constructed n-fold cycles interleaved with irreversible moves
    let mv = |s: &str| Mv::from_uci(s).unwrap();
    let cycles: Vec<(&str, bool, Vec<Mv>, Vec<Mv>, Vec<Mv>)> = vec![
        // (root, startpos, cycle, irreversible interlude, second cycle)
        ("4k3/8/8/8/8/8/4P3/4K2R w K - 0 1", false, vec![mv("h1h2"), mv("e8d8"), mv("h2h1"), mv("d8e8")], vec![mv("e2e3"), mv("e8e7")], vec![mv("h1h2"), mv("e7d7"), mv("h2h1"), mv("d7e7")]),
        ("rnbqkbnr/pppppppp/8/8/8/8/PPPPPPPP/RNBQKBNR w KQkq - 0 1", true, vec![mv("g1f3"), mv("g8f6"), mv("f3g1"), mv("f6g8")], vec![mv("e2e4"), mv("e7e5")], vec![mv("g1f3"), mv("g8f6"), mv("f3g1"), mv("f6g8")]),
        ("7k/8/8/8/8/8/R6r/K7 w - - 0 1", false, vec![mv("a2b2"), mv("h8g8"), mv("b2a2"), mv("g8h8")], vec![mv("a2h2"), mv("h8g8")], vec![mv("a1b1"), mv("g8f8"), mv("b1a1"), mv("f8g8")]),
    ];
    let mut cycles = cycles;
    // non-king pieces moving on the four square pairs castling uses (e1g1, e1c1, e8g8, e8c8)
    cycles.push(("k7/8/8/8/8/8/8/4R2K w - - 0 1", false, vec![mv("e1g1"), mv("a8b8"), mv("g1e1"), mv("b8a8")], vec![mv("h1h2"), mv("a8a7")], vec![mv("e1c1"), mv("a7b7"), mv("c1e1"), mv("b7a7")]));
    cycles.push(("4r2k/8/8/8/8/8/8/K7 b - - 0 1", false, vec![mv("e8g8"), mv("a1b1"), mv("g8e8"), mv("b1a1")], vec![mv("h8h7"), mv("a1a2")], vec![mv("e8c8"), mv("a2b2"), mv("c8e8"), mv("b2a2")]));
    cycles.push(("3q3k/8/8/8/8/8/8/K3Q3 w - - 0 1", false, vec![mv("e1c1"), mv("d8e8"), mv("c1e1"), mv("e8d8")], vec![mv("a1a2"), mv("h8h7")], vec![mv("e1g1"), mv("d8e8"), mv("g1e1"), mv("e8d8")]));
    // the same square pairs with the shuttling side materially worse (so that the draw is what saves it)
    cycles.push(("3q3k/8/8/8/8/8/8/K3R3 w - - 0 1", false, vec![mv("e1g1"), mv("h8h7"), mv("g1e1"), mv("h7h8")], vec![mv("a1a2"), mv("h8g8")], vec![mv("e1c1"), mv("g8g7"), mv("c1e1"), mv("g7g8")]));
    cycles.push(("k3r3/8/8/8/8/8/8/3Q3K b - - 0 1", false, vec![mv("e8g8"), mv("h1h2"), mv("g8e8"), mv("h2h1")], vec![mv("a8a7"), mv("h1g1")], vec![mv("e8c8"), mv("g1g2"), mv("c8e8"), mv("g2g1")]));
    let ns: Vec<usize> = if quick { vec![1, 2, 3, 4, 5, 10, 50, 100] } else { (1..=100).collect() };
    for (fen, startpos, cyc, inter, cyc2) in &cycles {
        for &n in &ns {
            for &m in &[0usize, 1, 2, 3, 100] {
                if m == 100 && n != 100 && quick {
                    continue;
                }
                let mut path: Vec<Mv> = Vec::new();
                for _ in 0..n {
                    path.extend_from_slice(cyc);
                }
                // every prefix cut inside the last cycle, so that roots at every phase of the cycle occur
                for cut in 0..cyc.len() {
                    let p: Vec<Mv> = path[..path.len() - cut].to_vec();
                    paths.fetch_add(1, Ordering::Relaxed);
                    edges.fetch_add(p.len() as u64, Ordering::Relaxed);
                    if let Some((_, table, seq)) = check_history(rep, &h, fen, *startpos, &p) {
                        max_count.fetch_max(table.table.values().max().copied().unwrap_or(0) as u64, Ordering::Relaxed);
                        let last = *seq.last().unwrap();
                        let best = last.legal_moves().iter().map(|mm| seq.iter().filter(|q| **q == last.make(mm)).count() as u32).max().unwrap_or(0);
                        if best >= 2 && (n <= 5 || n == 100) && m == 0 {
                            search_set.lock().unwrap().push((fen.to_string(), *startpos, p.clone(), best));
                        }
                    }
                }
                if m > 0 {
                    let mut p = path.clone();
                    p.extend_from_slice(inter);
                    for _ in 0..m {
                        p.extend_from_slice(cyc2);
                    }
                    paths.fetch_add(1, Ordering::Relaxed);
                    edges.fetch_add(p.len() as u64, Ordering::Relaxed);
                    if let Some((_, table, seq)) = check_history(rep, &h, fen, *startpos, &p) {
                        max_count.fetch_max(table.table.values().max().copied().unwrap_or(0) as u64, Ordering::Relaxed);
                        let last = *seq.last().unwrap();
                        let best = last.legal_moves().iter().map(|mm| seq.iter().filter(|q| **q == last.make(mm)).count() as u32).max().unwrap_or(0);
                        if best >= 2 && m <= 3 && n <= 3 {
                            search_set.lock().unwrap().push((fen.to_string(), *startpos, p.clone(), best));
                        }
                    }
                }
            }
        }
    }

    // ---- A3: long games (hundreds to thousands of plies, hundreds of distinct positions) in which quiet
    // shuffling is interrupted by a pawn move or a capture every `period` plies: whatever the engine does to
    // keep its record small in long games must keep the counts exact. Every game is checked as a whole and at
    // prefixes cut right after each irreversible move and a few plies later.
    let long_specs: Vec<(usize, usize)> = if quick { vec![(300, 37), (700, 97)] } else { vec![(300, 37), (700, 97), (1500, 61), (3000, 149), (3000, 301)] };
    let long_games: Vec<(Vec<Mv>, Vec<usize>)> = long_specs.iter().map(|(n, per)| mixed_long_game(*n, *per)).collect();
    let long_checked = AtomicU64::new(0);
    let long_distinct = AtomicU64::new(0);
    {
        let mut jobs: Vec<(usize, usize)> = Vec::new();
        for (gi, (moves, cuts)) in long_games.iter().enumerate() {
            jobs.push((gi, moves.len()));
            for c in cuts {
                for extra in [0usize, 1, 2, 9] {
                    if c + extra <= moves.len() {
                        jobs.push((gi, c + extra));
                    }
                }
            }
        }
        let idx = AtomicUsize::new(0);
        std::thread::scope(|s| {
            for _ in 0..threads() {
                s.spawn(|| loop {
                    let i = idx.fetch_add(1, Ordering::Relaxed);
                    if i >= jobs.len() {
                        break;
                    }
                    let (gi, len) = jobs[i];
                    paths.fetch_add(1, Ordering::Relaxed);
                    edges.fetch_add(len as u64, Ordering::Relaxed);
                    if let Some((_, table, _)) = check_history(rep, &h, "rnbqkbnr/pppppppp/8/8/8/8/PPPPPPPP/RNBQKBNR w KQkq - 0 1", true, &long_games[gi].0[..len]) {
                        long_checked.fetch_add(1, Ordering::Relaxed);
                        max_count.fetch_max(table.table.values().max().copied().unwrap_or(0) as u64, Ordering::Relaxed);
                        long_distinct.fetch_max(table.table.len() as u64, Ordering::Relaxed);
                    }
                });
            }
        });
    }
    rep.add("long_game_prefixes_checked", long_checked.load(Ordering::Relaxed));
    rep.add("most_distinct_positions_in_one_record", long_distinct.load(Ordering::Relaxed));

    // ---- B: the draw rule in search, from every collected history
    let search_set = search_set.into_inner().unwrap();
    let searches = AtomicU64::new(0);
    let search_nodes = AtomicU64::new(0);
    let with_threefold_target = AtomicU64::new(0);
    let idx = AtomicUsize::new(0);
    std::thread::scope(|s| {
        for _ in 0..threads() {
            s.spawn(|| loop {
                let i = idx.fetch_add(1, Ordering::Relaxed);
                if i >= search_set.len() {
                    break;
                }
                let (fen, startpos, path, best_count) = &search_set[i];
                let mut cmd = if *startpos { "position startpos".to_string() } else { format!("position fen {}", fen) };
                if !path.is_empty() {
                    cmd.push_str(" moves ");
                    cmd.push_str(&path.iter().map(|m| m.uci()).collect::<Vec<_>>().join(" "));
                }
                let root = root_from_command(&cmd, &h);
                let pieces = root.pos.b.iter().filter(|x| **x != 0).count();
                let depth: u8 = if pieces > 10 { 2 } else { 3 };
                let run = run_search(&root.board, &root.table, None, depth);
                searches.fetch_add(1, Ordering::Relaxed);
                search_nodes.fetch_add(run.queries, Ordering::Relaxed);
                if *best_count >= 3 {
                    with_threefold_target.fetch_add(1, Ordering::Relaxed);
                }
                if let Some(p) = &run.panicked {
                    rep.fail("C07", "search-panic", format!("'{}': {}", cmd, p), case(&cmd));
                    continue;
                }
                if table_counts(&run.table_after) != table_counts(&root.table) {
                    rep.fail("C07", "record-not-restored", format!("'{}'", cmd), case(&cmd));
                }
                let infos: Vec<Info> = run.infos.iter().filter_map(|l| parse_info(l).ok()).collect();
                for d in 1..=depth as u32 {
                    if let Some(last) = infos.iter().rev().find(|x| x.depth == d) {
                        let negative = match (last.mate, last.cp) {
                            (Some(m), _) => m < 0,
                            (_, Some(c)) => c < 0,
                            _ => false,
                        };
                        if negative {
                            let sig = if *best_count >= 3 { "negative-score-despite-repetition-move/target-occurred-three-or-more-times" } else { "negative-score-despite-repetition-move" };
                            rep.fail("C10", sig, format!("'{}': a move into a position that occurred {} times is available, but iteration {} ends with '{}'", cmd, best_count, d, last.raw), case(&cmd).set("stop_after_iteration", J::Int(depth as i128)).set("line", J::s(&last.raw)));
                        }
                    } else {
                        rep.fail("C10", "iteration-without-result", format!("'{}': iteration {} reported nothing", cmd, d), case(&cmd));
                    }
                }
                if i % 977 == 0 {
                    rep.sample(J::obj().set("history", J::s(&cmd)).set("repetition_move_target_occurred", J::Int(*best_count as i128)).set("info_lines", J::strs(&run.infos.iter().map(|l| strip_time(l)).collect::<Vec<_>>())));
                }
            });
        }
    });

    let (mut sessions, mut session_cmds) = (0, 0);
    if let Some(sp) = session_part {
        let (a, b) = sp(rep);
        sessions = a;
        session_cmds = b;
    }
    rep.add("histories_checked", paths.load(Ordering::Relaxed));
    rep.add("histories_with_a_repeated_position", with_rep.load(Ordering::Relaxed));
    rep.add("largest_count_seen", max_count.load(Ordering::Relaxed));
    rep.add("searches_from_histories_offering_a_repetition_move", searches.load(Ordering::Relaxed));
    rep.add("of_those_target_already_occurred_three_or_more_times", with_threefold_target.load(Ordering::Relaxed));
    rep.add("sessions_with_several_position_commands", sessions);
    rep.assume("a position is (placement, side to move, castling rights, en-passant target as FEN states it), the same identity the engine's key has (C05)");
    let rule = "all move PATHS (not states) to the per-root depth from 8 repetition-prone roots, plus constructed n-fold cycles (n up to 100) cut at every phase and interleaved with irreversible moves, each sent as one `position` command through the real handler into a fresh record and compared with the reference multiset; then the real search (iterations 1..3) from every history whose final position offers a move into a position that already occurred at least twice; plus all ordered pairs/triples of position commands in one session of the real binary";
    rep.finish(paths.load(Ordering::Relaxed) + searches.load(Ordering::Relaxed) + sessions, edges.load(Ordering::Relaxed) + search_nodes.load(Ordering::Relaxed) + session_cmds, searches.load(Ordering::Relaxed) + sessions, true, rule)
}

//! Per-property drivers.
use crate::e1_posgraph::{self, Focus};
use crate::json::J;
use crate::report::Report;

pub fn run(property: &str, tier: &str) -> i32 {
    let rep = Report::new(property, tier);
    match property {
        "C01" | "C02" | "C04" | "C05" | "C13" => {
            let r = e1_posgraph::run(&rep, Focus::for_property(property));
            let rule = "explicit-state search: every distinct canonical state (placement, side, rights, ep target, inherited promotion descriptor, capture-mode flag) of the S1 reach graph to the per-root depth limits and of the complete S2 small-scope families; transitions = successors produced by the engine's real generate_moves and compared with the rules oracle";
            rep.finish(r.states, r.transitions, r.validated, r.exhaustive, rule)
        }
        "C06" => crate::e5_pure::run_c06(&rep),
        "C09" => crate::e5_pure::run_c09(&rep),
        "C14" => crate::e5_pure::run_c14(&rep),
        "C15" => crate::e5_pure::run_c15(&rep, None),
        _ => {
            eprintln!("no check registered for {}", property);
            2
        }
    }
}

pub fn replay(_path: &str) -> i32 {
    let _ = J::Null;
    eprintln!("replay not implemented yet");
    2
}

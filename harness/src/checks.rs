//! Per-property drivers.
use crate::e1_posgraph::{self, Focus};
use crate::json::J;
use crate::report::Report;

pub fn run(property: &str, tier: &str) -> i32 {
    let rep = Report::new(property, tier);
    match property {
        "C01" | "C02" | "C04" | "C05" | "C13" => {
            let r = e1_posgraph::run(&rep, Focus::for_property(property));
            let rule = "explicit-state search: every distinct canonical state (placement, side, rights, ep target, inherited promotion descriptor, capture-mode flag) of the S1 reach graph to the per-root depth limits and of the complete S2 small-scope families; transitions = successors produced by the engine's real generate_moves and compared with the rules oracle";
            rep.finish(r.states, r.transitions, r.validated, r.exhaustive, rule)
        }
        "C07" | "C18" => {
            let h = crate::zobrist::ZobristHasher::create_zobrist_hasher();
            let roots = crate::e2_clockpoints::c07_roots(&h);
            let quick = rep.quick();
            // heavy roots (more than 10 pieces) one iteration less
            let depth_of = move |r: &crate::e2_clockpoints::Root| -> u8 {
                let pieces = r.pos.b.iter().filter(|x| **x != 0).count();
                match (quick, pieces > 10) {
                    (true, true) => 2,
                    (true, false) => 4,
                    (false, true) => 3,
                    (false, false) => 5,
                }
            };
            let stats = crate::e2_clockpoints::C07Stats { points: 0.into(), node_queries: 0.into(), repeats: 0.into(), info_lines: 0.into(), residual_zero_entries: 0.into(), answers_changed_by_expiry: 0.into() };
            crate::e2_clockpoints::sweep_expiry(&rep, &roots, &depth_of, !rep.quick(), &stats);
            use std::sync::atomic::Ordering::Relaxed;
            rep.add("expiry_points", stats.points.load(Relaxed));
            rep.add("clock_consultations_executed", stats.node_queries.load(Relaxed));
            rep.add("runs_repeated_for_determinism", stats.repeats.load(Relaxed));
            rep.add("info_lines_checked", stats.info_lines.load(Relaxed));
            rep.add("distinct_outcomes_summed_over_roots", stats.answers_changed_by_expiry.load(Relaxed));
            rep.add("observation_zero_count_entries_left_in_record", stats.residual_zero_entries.load(Relaxed));
            rep.assume("the virtual clock (i-th consultation answers i >= k) is exact for a monotone real clock; out_of_time is the only place the engine reads time for decisions");
            let rule = format!("for each of {} roots: the un-expired run to the end of iteration {} and every expiry index k = 0..K (K = clock consultations of that run) of the real get_best_move; iterations: {} for roots with more than 10 pieces, {} otherwise; states = (root,k) points, transitions = clock consultations executed", roots.len(), "D", if quick { 2 } else { 3 }, if quick { 4 } else { 5 });
            rep.finish(stats.points.load(Relaxed), stats.node_queries.load(Relaxed), stats.repeats.load(Relaxed), true, &rule)
        }
        "C10" => crate::c10::run(&rep, None),
        "C11" => crate::e2_oracles::run_c11(&rep),
        "C12" => crate::e2_oracles::run_c12(&rep),
        "C06" => crate::e5_pure::run_c06(&rep),
        "C09" => crate::e5_pure::run_c09(&rep),
        "C14" => crate::e5_pure::run_c14(&rep),
        "C15" => crate::e5_pure::run_c15(&rep, None),
        _ => {
            eprintln!("no check registered for {}", property);
            2
        }
    }
}

pub fn replay(_path: &str) -> i32 {
    let _ = J::Null;
    eprintln!("replay not implemented yet");
    2
}

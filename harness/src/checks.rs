//! Per-property drivers.
use crate::e1_posgraph::{self, Focus};
use crate::json::J;
use crate::report::Report;

pub fn run(property: &str, tier: &str) -> i32 {
    let rep = Report::new(property, tier);
    use std::sync::atomic::Ordering::Relaxed;
    let e1_rule = "explicit-state search: every distinct canonical state (placement, side, rights, ep target, inherited promotion descriptor, capture-mode flag) of the S1 reach graph to the per-root depth limits and of the complete S2 small-scope families; transitions = successors produced by the engine's real generate_moves and compared with the rules oracle";
    match property {
        "C01" | "C02" | "C13" => {
            let r = e1_posgraph::run(&rep, Focus::for_property(property));
            rep.finish(r.states, r.transitions, r.validated, r.exhaustive, e1_rule)
        }
        "C05" => {
            let r = e1_posgraph::run(&rep, Focus::for_property(property));
            let (n, m) = crate::e5_pure::c05_sensitivity(&rep);
            let rule = format!("{}; plus: the 781 addressable hash constants non-zero and pairwise distinct, and every single-component mutation of 5 sample positions through the FEN loader changes the key; every queen-promotion edge is also replayed as text with the unknown fifth letters k p x Q 0 and the key the applier keeps is compared with the scratch key of the board the applier itself built", e1_rule);
            rep.finish(r.states + n, r.transitions + m, r.validated, r.exhaustive, &rule)
        }
        "C04" => {
            let r = e1_posgraph::run(&rep, Focus::for_property(property));
            // the same command inside sessions of the real binary (after go, after other positions, repeated)
            let mut commands: Vec<String> = crate::e4_session::POSITIONS.iter().map(|s| s.to_string()).collect();
            for c in [
                "position fen r3k2r/8/8/8/8/8/8/R3K2R w KQkq - 0 1 moves e1g1 e8c8",
                "position fen r3k2r/8/8/8/8/8/8/R3K2R w KQkq - 0 1 moves e1c1 e8g8 d1d8",
                "position fen 4k3/2p1p3/8/3P4/3p4/8/2P1P3/4K3 w - - 0 1 moves e2e4 d4e3",
                "position fen 4k3/2p1p3/8/3P4/3p4/8/2P1P3/4K3 w - - 0 1 moves c2c4 d4c3 d5d6 c7c5",
                "position fen r3k3/1P6/8/8/8/8/1p6/R3K3 w Qq - 0 1 moves b7a8n b2a1n",
                "position fen r3k3/1P6/8/8/8/8/1p6/R3K3 w Qq - 0 1 moves b7b8n b2b1b",
                "position fen 1r6/8/8/8/8/8/2k5/K7 w - - 0 1",
                "position startpos moves e2e4",
                "position fen 7k/8/8/8/8/8/R7/K7 w - - 0 1 moves a2h2",
            ] {
                commands.push(c.to_string());
            }
            let (sessions, cmds) = crate::e4_session::c04_sessions(&rep, &commands);
            rep.add("position_commands_checked_in_session_context", sessions);
            let sizes: &[usize] = if rep.quick() { &[8300, 16500, 66000] } else { &[4200, 8300, 16500, 33000, 66000, 132000, 270000] };
            let (long_sessions, long_cmds) = crate::e4_session::c04_long_lines(&rep, sizes);
            rep.add("position_commands_longer_than_io_buffers_sessions", long_sessions);
            let (sessions, cmds) = (sessions + long_sessions, cmds + long_cmds);
            let rule = format!("{}; plus {} position commands (castling both wings, en passant, promotions with capture on a corner, repetitions) each inside 6 session contexts of the real binary (alone, after go, repeated, after ucinewgame, after other games): loop state compared with the rules; legal games whose position command is 8 KiB to 64 KiB (256 KiB thorough) long, alone and after other commands", e1_rule, commands.len());
            rep.finish(r.states + sessions, r.transitions + cmds, r.validated + sessions, r.exhaustive, &rule)
        }
        "C03" => {
            // (a) positions x formatting
            let r1 = e1_posgraph::run(&rep, Focus::for_property("C03"));
            // (b) the search hands back only root successors, at every expiry point
            let (points, queries, repeats) = expiry_sweep_with(&rep, 2);
            // (c)(d) go parameters and go sequences on the real binary
            let (sessions, cmds) = crate::e4_session::c03_sessions(&rep, "C03");
            let forced = crate::e4_session::forced_move_sessions(&rep);
            let (sessions, cmds) = (sessions + forced, cmds + forced * 6);
            // (e) interleavings
            let r3 = crate::e3_driver::run(&rep, false);
            let conf = crate::e4_session::free_running_conformance(&rep, &r3.outcomes_by_root);
            rep.add("free_running_std_thread_runs_inside_the_enumerated_outcome_set", conf);
            let rule = format!("(a) {}; (b) every clock-expiry index of the real search on 20 roots; (c)(d) go parameter sequences and sequences of 1..4 go commands as sessions of the real binary under virtual expiry vectors, answers replayed by the oracle; (e) all interleavings of the I/O thread with the search thread under loom for every expiry index (preemption bound 2 quick / 3 thorough, unbounded for small indices), one and two go commands", e1_rule);
            rep.finish(r1.states + points + sessions + r3.models, r1.transitions + queries + cmds + r3.executions, r1.validated + repeats + conf, r1.exhaustive, &rule)
        }
        "C07" | "C18" => {
            let (points, queries, repeats) = expiry_sweep(&rep);
            let mut states = points;
            let mut transitions = queries;
            let mut rule = "for each of 20 roots: the un-expired run to the end of iteration D and every expiry index k = 0..K (K = clock consultations of that run) of the real get_best_move; D per root by material (see counters); states = (root,k) points, transitions = clock consultations executed".to_string();
            if property == "C18" {
                // every info line of the complete KQK/KRK families, the back-rank family and the mate-in-one sweeps too
                crate::e2_oracles::explore_c11(&rep, false);
                states += rep.get("family_states");
                transitions += rep.get("family_transitions");
                // the first PV move of an info line is the root move's descriptor: for every root move of every state of
                // S1 and the castling family that descriptor must name the move that produces the successor
                let r = e1_posgraph::run(&rep, Focus::for_property("C18"));
                states += r.states;
                transitions += r.transitions;
                rule.push_str("; plus every info line of the searches of the complete KQK/KRK families, the back-rank family and the expiry sweeps on mate-in-one roots (won and lost positions, mate scores of both signs); plus, for every root move of every state of the S1 reach graph and the castling family, the descriptor an info line would print as first PV move names exactly that move");
            }
            if property == "C07" {
                let r3 = crate::e3_driver::run(&rep, false);
                states += r3.models;
                transitions += r3.executions;
                rule.push_str("; plus all interleavings of the search thread with the I/O thread (loom) for every expiry index of 5 roots: nothing panics when the receiver has gone away");
            }
            rep.finish(states, transitions, repeats, true, &rule)
        }
        "C08" => {
            let r3 = crate::e3_driver::run(&rep, false);
            let (sessions, cmds) = crate::e4_session::c03_sessions(&rep, "C03");
            let smoke = crate::e4_session::wallclock_smoke(&rep) + crate::e4_session::realclock_sessions(&rep) + crate::e4_session::startup_option_sessions(&rep) + crate::e4_session::forced_move_sessions(&rep) + crate::e5_pure::deadline_predicate(&rep);
            rep.assume("wall-clock magnitudes are a smoke measurement with a 3 s margin; the exhaustive verdict is the virtual-time one (every schedule terminates with an answer, the search thread unwinds within a bounded number of consultations after expiry)");
            let rule = "all interleavings (loom, preemption bound 2/3, unbounded for small expiry indices) x every expiry index on non-terminal, checkmated and stalemated roots, one and two go commands: exactly one bestmove per go, null move on a finished game, no livelock; sessions of the real binary continuing after go (isready, new position, go); wall-clock smoke run on the unhooked binary";
            rep.finish(r3.models + sessions, r3.executions + cmds, smoke, true, rule)
        }
        "C09" => {
            // pure part first (writes nothing yet), then the ordering facts in virtual time, then the smoke run
            let r3 = crate::e3_driver::run(&rep, true);
            let smoke = crate::e4_session::wallclock_smoke(&rep) + crate::e4_session::realclock_sessions(&rep);
            rep.add("loom_part_models", r3.models);
            let _ = smoke;
            crate::e5_pure::run_c09(&rep)
        }
        "C10" => crate::c10::run(&rep, Some(&crate::e4_session::c10_sessions)),
        "C11" => crate::e2_oracles::run_c11(&rep),
        "C12" => crate::e2_oracles::run_c12(&rep),
        "C06" => crate::e5_pure::run_c06(&rep),
        "C14" => crate::e5_pure::run_c14(&rep),
        "C15" => crate::e5_pure::run_c15(&rep, Some(&crate::e4_session::c15_cli)),
        "C16" => crate::e4_session::run_c16(&rep),
        "C17" => crate::e4_session::run_c17(&rep),
        _ => {
            eprintln!("no check registered for {}", property);
            2
        }
    }
}

/// E2: every expiry index of every C07 root; returns (points, consultations, repeated runs)
fn expiry_sweep(rep: &Report) -> (u64, u64, u64) {
    expiry_sweep_with(rep, 0)
}

/// `fewer`: iterations to drop on the light roots (C03 only needs the hand-back clause, not depth)
fn expiry_sweep_with(rep: &Report, fewer: u8) -> (u64, u64, u64) {
    use std::sync::atomic::Ordering::Relaxed;
    let h = crate::zobrist::ZobristHasher::create_zobrist_hasher();
    let roots = crate::e2_clockpoints::c07_roots(&h);
    let quick = rep.quick();
    // heavy roots (more than 10 pieces) fewer iterations
    let depth_of = move |r: &crate::e2_clockpoints::Root| -> u8 {
        let pieces = r.pos.b.iter().filter(|x| **x != 0).count();
        if pieces > 20 {
            return 1; // one iteration is already 10^5 nodes of capture search
        }
        match (quick, pieces > 10) {
            (true, true) => 2,
            (true, false) => 5 - fewer,
            (false, true) => 3,
            (false, false) => 6 - fewer,
        }
    };
    let stats = crate::e2_clockpoints::C07Stats { points: 0.into(), node_queries: 0.into(), repeats: 0.into(), info_lines: 0.into(), residual_zero_entries: 0.into(), answers_changed_by_expiry: 0.into() };
    crate::e2_clockpoints::sweep_expiry(rep, &roots, &depth_of, !quick, &stats);
    // the allowance as a number (not as an expiry point): startpos, a middlegame, two endgames, a history
    let picked: Vec<crate::e2_clockpoints::Root> = roots.iter().enumerate().filter(|(i, _)| !quick || [0usize, 1, 4, 14, 22].contains(i)).map(|(_, r)| r.clone()).collect();
    let runs = crate::e2_clockpoints::allowance_independence(rep, &picked, &depth_of);
    rep.add("unexpired_runs_with_other_numeric_allowances", runs);
    crate::e2_clockpoints::fortress_full_searches(rep, &stats.info_lines);
    rep.add("expiry_points", stats.points.load(Relaxed));
    rep.add("clock_consultations_executed", stats.node_queries.load(Relaxed));
    rep.add("runs_repeated_for_determinism", stats.repeats.load(Relaxed));
    rep.add("info_lines_checked", stats.info_lines.load(Relaxed));
    rep.add("distinct_outcomes_summed_over_roots", stats.answers_changed_by_expiry.load(Relaxed));
    rep.add("observation_zero_count_entries_left_in_record", stats.residual_zero_entries.load(Relaxed));
    rep.add("iterations_for_roots_with_more_than_10_pieces", if quick { 2 } else { 3 });
    rep.add("iterations_for_other_roots", (if quick { 5 } else { 6 }) - fewer as u64);
    rep.assume("the virtual clock (i-th consultation answers i >= k) is exact for a monotone real clock; out_of_time is the only place the engine reads time for decisions");
    (stats.points.load(Relaxed), stats.node_queries.load(Relaxed), stats.repeats.load(Relaxed))
}

/// Re-execute one recorded case without the explorer, twice, and say whether the violation shows again.
/// exit 1: reproduced (VIOLATION line printed); 0: not reproduced; 2: cannot replay.
pub fn replay(path: &str) -> i32 {
    let text = match std::fs::read_to_string(path) {
        Ok(t) => t,
        Err(e) => {
            eprintln!("cannot read {}: {}", path, e);
            return 2;
        }
    };
    let doc = match J::parse(&text) {
        Ok(j) => j,
        Err(e) => {
            eprintln!("{} is not JSON: {}", path, e);
            return 2;
        }
    };
    let property = doc.get("property").and_then(|x| x.as_str()).unwrap_or("").to_string();
    let signature = doc.get("signature").and_then(|x| x.as_str()).unwrap_or("").to_string();
    let case = doc.get("case").cloned().unwrap_or(J::Null);
    let kind = case.get("kind").and_then(|x| x.as_str()).unwrap_or("").to_string();
    println!("replaying {} [{}] kind {}", property, signature, kind);
    let observe = |round: usize| -> Result<Vec<(String, String)>, String> {
        let rep = Report::new(&property, "quick");
        match kind.as_str() {
            "e1-node" => {
                let root = case.get("root_fen").and_then(|x| x.as_str()).ok_or("no root_fen")?;
                let path: Vec<String> = case.get("path").and_then(|x| x.as_arr()).map(|a| a.iter().filter_map(|x| x.as_str().map(|s| s.to_string())).collect()).unwrap_or_default();
                let mut focus = Focus::for_property(&property);
                if property == "C15" || property == "C10" {
                    focus = Focus::for_property("C04");
                }
                let ex = e1_posgraph::Explorer::new(&rep, focus);
                let node = e1_posgraph::walk(&ex, root, &path)?;
                let mut out = Vec::new();
                let mut local = std::collections::BTreeMap::new();
                ex.check_node(&node, node.depth, &mut out, &mut local);
                println!("  round {}: position {}", round, node.pos.fen());
            }
            "e2-search" | "c10-history" => {
                let cmd = case.get("position_command").and_then(|x| x.as_str()).ok_or("no position_command")?;
                let h = crate::zobrist::ZobristHasher::create_zobrist_hasher();
                let root = crate::e2_clockpoints::root_from_command(cmd, &h);
                let k = case.get("expiry_index").and_then(|x| x.as_i()).map(|x| x as u64);
                let depth = case.get("stop_after_iteration").and_then(|x| x.as_i()).unwrap_or(3) as u8;
                let run = crate::e2_clockpoints::run_search(&root.board, &root.table, k, if k.is_none() { depth.max(1) } else { depth });
                println!("  round {}: {} boards handed back, panicked: {:?}", round, run.sent.len(), run.panicked);
                for l in &run.infos {
                    println!("    {}", crate::e2_clockpoints::strip_time(l));
                }
                println!("  (the full oracle of this case runs inside `bin/check {} quick`; this replay shows the raw observation)", property);
                return Ok(run.infos.iter().map(|l| ("observation".to_string(), crate::e2_clockpoints::strip_time(l))).chain(run.panicked.iter().map(|p| ("panic".to_string(), p.clone()))).collect());
            }
            "e3-model" => {
                let fen = case.get("fen").and_then(|x| x.as_str()).ok_or("no fen")?;
                let ks = case.get("expiry").and_then(|x| x.as_str()).ok_or("no expiry")?;
                let bound = case.get("preemption_bound").and_then(|x| x.as_str()).unwrap_or("2");
                let gos = case.get("gos").and_then(|x| x.as_i()).unwrap_or(1).to_string();
                let out = std::process::Command::new(crate::e3_driver::SCHED_BIN).args(["run", fen, ks, bound, &gos]).output().map_err(|e| e.to_string())?;
                let line = String::from_utf8_lossy(&out.stdout).lines().rev().find(|l| l.starts_with('{')).unwrap_or("").to_string();
                println!("  round {}: {}", round, line);
                let j = J::parse(&line).map_err(|e| e)?;
                let viols: Vec<J> = match j.get("violation") {
                    Some(J::Arr(a)) => a.clone(),
                    Some(v @ J::Obj(_)) => vec![v.clone()],
                    _ => Vec::new(),
                };
                return Ok(viols.iter().map(|v| (v.get("signature").and_then(|x| x.as_str()).unwrap_or("").to_string(), v.get("summary").and_then(|x| x.as_str()).unwrap_or("").to_string())).collect());
            }
            "e4-session" => {
                let lines: Vec<String> = case.get("lines").and_then(|x| x.as_arr()).map(|a| a.iter().filter_map(|x| x.as_str().map(|s| s.to_string())).collect()).unwrap_or_default();
                let ks: Vec<Option<u64>> = case.get("virtual_expiry_per_go").and_then(|x| x.as_arr()).map(|a| a.iter().map(|x| x.as_i().map(|v| v as u64)).collect()).unwrap_or_default();
                let mut ki = 0;
                let cmds: Vec<crate::e4_session::Cmd> = lines
                    .iter()
                    .map(|l| {
                        let mut c = crate::e4_session::c(l);
                        if crate::e4_session::is_go(l) {
                            c.expiry = ks.get(ki).cloned().flatten();
                            ki += 1;
                        }
                        c
                    })
                    .collect();
                let mut opts = crate::e4_session::default_opts();
                if case.get("end").and_then(|x| x.as_str()) == Some("stdin closed") {
                    opts.end = crate::e4_session::End::CloseStdin;
                    opts.timeout = std::time::Duration::from_secs(3);
                }
                if let Some(b) = case.get("binary").and_then(|x| x.as_str()) {
                    if b == crate::e4_session::BIN_OFF {
                        opts.bin = crate::e4_session::BIN_OFF;
                        opts.hooks = false;
                    }
                }
                let o = crate::e4_session::run_session(&cmds, &opts);
                println!("  round {}: timed out {}, exit {:?}, {} of {} commands handled", round, o.timed_out, o.exit_code, o.states.len(), cmds.len());
                for l in crate::e4_session::replies(&o) {
                    println!("    {}", l);
                }
                println!("  (the full oracle of this case runs inside `bin/check {} quick`; this replay shows the raw observation)", property);
                return Ok(crate::e4_session::replies(&o).into_iter().map(|l| ("observation".to_string(), l)).chain(if o.timed_out { vec![("timed-out".to_string(), "process had to be killed".to_string())] } else { vec![] }).collect());
            }
            "c15" => {
                let input = case.get("input").and_then(|x| x.as_str()).ok_or("no input")?.to_string();
                let r = std::panic::catch_unwind(|| crate::board::BoardState::from_fen(&input).map(|_| ()).map_err(|e| e.to_string()));
                let obs = match r {
                    Ok(Ok(())) => "accepted".to_string(),
                    Ok(Err(e)) => format!("Err({})", e),
                    Err(_) => "PANIC".to_string(),
                };
                println!("  round {}: from_fen({:?}) -> {}", round, input, obs);
                return Ok(vec![("observation".to_string(), obs)]);
            }
            "c06" => {
                let fen = case.get("placement_fen").and_then(|x| x.as_str()).ok_or("no placement_fen")?;
                let pos = crate::rules::Pos::from_fen(fen).ok_or("bad fen")?;
                let h = crate::zobrist::ZobristHasher::create_zobrist_hasher();
                let b = crate::bridge::board_of_pos(&pos, &h);
                let mut v = Vec::new();
                for (c, ec, name) in [(crate::rules::WHITE, crate::board::PieceColor::White, "white"), (crate::rules::BLACK, crate::board::PieceColor::Black, "black")] {
                    let got = crate::move_generation::is_check(&b, ec);
                    let want = pos.king_sq(c).map(|k| pos.attacked(k, c ^ 1)).unwrap_or(false);
                    println!("  round {}: {} king: engine {}, rules {}", round, name, got, want);
                    if got != want {
                        v.push((signature.clone(), format!("{} king engine {} rules {}", name, got, want)));
                    }
                }
                return Ok(v);
            }
            _ => return Err(format!("replay of kind '{}' is done by re-running `bin/check {} quick` (the case is listed in the file)", kind, property)),
        }
        let v = rep.violations.lock().unwrap().iter().map(|v| (v.signature.clone(), v.summary.clone())).collect();
        Ok(v)
    };
    let a = match observe(1) {
        Ok(v) => v,
        Err(e) => {
            eprintln!("cannot replay: {}", e);
            return 2;
        }
    };
    let b = observe(2).unwrap_or_default();
    if a != b {
        eprintln!("MACHINERY-ERROR: the two replays differ (nondeterminism): {:?} vs {:?}", a, b);
        return 2;
    }
    let hit: Vec<&(String, String)> = a.iter().filter(|(s, _)| *s == signature).collect();
    if !hit.is_empty() {
        println!("VIOLATION property={} replay={}", property, path);
        for (s, m) in hit {
            println!("  {} :: {}", s, m);
        }
        1
    } else if a.iter().any(|(s, _)| s == "observation" || s == "panic" || s == "timed-out") {
        println!("observation replayed identically twice (see above); verdicts are computed by bin/check");
        0
    } else {
        println!("not reproduced on the current tree (both replays agree)");
        0
    }
}

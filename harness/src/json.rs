//! Minimal JSON value, printer and parser (no external crates are available offline besides the repo's own).
#![allow(dead_code)]
use std::collections::BTreeMap;

#[derive(Clone, Debug, PartialEq)]
pub enum J {
    Null,
    Bool(bool),
    Int(i128),
    Num(f64),
    Str(String),
    Arr(Vec<J>),
    Obj(Vec<(String, J)>),
}

impl J {
    pub fn obj() -> J {
        J::Obj(Vec::new())
    }
    pub fn set(mut self, k: &str, v: J) -> J {
        if let J::Obj(ref mut o) = self {
            if let Some(e) = o.iter_mut().find(|(kk, _)| kk == k) {
                e.1 = v;
            } else {
                o.push((k.to_string(), v));
            }
        }
        self
    }
    pub fn put(&mut self, k: &str, v: J) {
        if let J::Obj(ref mut o) = self {
            if let Some(e) = o.iter_mut().find(|(kk, _)| kk == k) {
                e.1 = v;
            } else {
                o.push((k.to_string(), v));
            }
        }
    }
    pub fn get(&self, k: &str) -> Option<&J> {
        if let J::Obj(o) = self {
            o.iter().find(|(kk, _)| kk == k).map(|(_, v)| v)
        } else {
            None
        }
    }
    pub fn as_str(&self) -> Option<&str> {
        if let J::Str(s) = self {
            Some(s)
        } else {
            None
        }
    }
    pub fn as_i(&self) -> Option<i128> {
        match self {
            J::Int(i) => Some(*i),
            J::Num(f) => Some(*f as i128),
            _ => None,
        }
    }
    pub fn as_arr(&self) -> Option<&Vec<J>> {
        if let J::Arr(a) = self {
            Some(a)
        } else {
            None
        }
    }
    pub fn s(x: &str) -> J {
        J::Str(x.to_string())
    }
    pub fn i<T: Into<i128>>(x: T) -> J {
        J::Int(x.into())
    }
    pub fn u(x: usize) -> J {
        J::Int(x as i128)
    }
    pub fn strs<T: AsRef<str>>(xs: &[T]) -> J {
        J::Arr(xs.iter().map(|x| J::Str(x.as_ref().to_string())).collect())
    }
    pub fn from_map(m: &BTreeMap<String, u64>) -> J {
        J::Obj(m.iter().map(|(k, v)| (k.clone(), J::Int(*v as i128))).collect())
    }

    pub fn to_string_pretty(&self) -> String {
        let mut s = String::new();
        self.write(&mut s, 0);
        s.push('\n');
        s
    }

    fn write(&self, out: &mut String, ind: usize) {
        match self {
            J::Null => out.push_str("null"),
            J::Bool(b) => out.push_str(if *b { "true" } else { "false" }),
            J::Int(i) => out.push_str(&i.to_string()),
            J::Num(f) => {
                if f.is_finite() {
                    out.push_str(&format!("{:.3}", f))
                } else {
                    out.push_str("0")
                }
            }
            J::Str(s) => write_str(out, s),
            J::Arr(a) => {
                if a.is_empty() {
                    out.push_str("[]");
                    return;
                }
                let simple = a.iter().all(|x| !matches!(x, J::Arr(_) | J::Obj(_)));
                out.push('[');
                for (i, x) in a.iter().enumerate() {
                    if i > 0 {
                        out.push(',');
                    }
                    if simple {
                        if i > 0 {
                            out.push(' ');
                        }
                    } else {
                        out.push('\n');
                        out.push_str(&" ".repeat(ind + 1));
                    }
                    x.write(out, ind + 1);
                }
                if !simple {
                    out.push('\n');
                    out.push_str(&" ".repeat(ind));
                }
                out.push(']');
            }
            J::Obj(o) => {
                if o.is_empty() {
                    out.push_str("{}");
                    return;
                }
                out.push('{');
                for (i, (k, v)) in o.iter().enumerate() {
                    if i > 0 {
                        out.push(',');
                    }
                    out.push('\n');
                    out.push_str(&" ".repeat(ind + 1));
                    write_str(out, k);
                    out.push_str(": ");
                    v.write(out, ind + 1);
                }
                out.push('\n');
                out.push_str(&" ".repeat(ind));
                out.push('}');
            }
        }
    }

    pub fn parse(text: &str) -> Result<J, String> {
        let mut p = Parser { s: text.as_bytes(), i: 0 };
        let v = p.value()?;
        p.ws();
        if p.i != p.s.len() {
            return Err(format!("trailing data at {}", p.i));
        }
        Ok(v)
    }
}

fn write_str(out: &mut String, s: &str) {
    out.push('"');
    for c in s.chars() {
        match c {
            '"' => out.push_str("\\\""),
            '\\' => out.push_str("\\\\"),
            '\n' => out.push_str("\\n"),
            '\r' => out.push_str("\\r"),
            '\t' => out.push_str("\\t"),
            c if (c as u32) < 0x20 => out.push_str(&format!("\\u{:04x}", c as u32)),
            c => out.push(c),
        }
    }
    out.push('"');
}

struct Parser<'a> {
    s: &'a [u8],
    i: usize,
}

impl<'a> Parser<'a> {
    fn ws(&mut self) {
        while self.i < self.s.len() && (self.s[self.i] as char).is_ascii_whitespace() {
            self.i += 1;
        }
    }
    fn value(&mut self) -> Result<J, String> {
        self.ws();
        if self.i >= self.s.len() {
            return Err("unexpected end".into());
        }
        match self.s[self.i] {
            b'{' => {
                self.i += 1;
                let mut o = Vec::new();
                loop {
                    self.ws();
                    if self.peek() == Some(b'}') {
                        self.i += 1;
                        break;
                    }
                    let k = match self.value()? {
                        J::Str(s) => s,
                        _ => return Err("object key must be a string".into()),
                    };
                    self.ws();
                    if self.peek() != Some(b':') {
                        return Err(format!("expected ':' at {}", self.i));
                    }
                    self.i += 1;
                    let v = self.value()?;
                    o.push((k, v));
                    self.ws();
                    match self.peek() {
                        Some(b',') => self.i += 1,
                        Some(b'}') => {
                            self.i += 1;
                            break;
                        }
                        _ => return Err(format!("expected ',' or '}}' at {}", self.i)),
                    }
                }
                Ok(J::Obj(o))
            }
            b'[' => {
                self.i += 1;
                let mut a = Vec::new();
                loop {
                    self.ws();
                    if self.peek() == Some(b']') {
                        self.i += 1;
                        break;
                    }
                    a.push(self.value()?);
                    self.ws();
                    match self.peek() {
                        Some(b',') => self.i += 1,
                        Some(b']') => {
                            self.i += 1;
                            break;
                        }
                        _ => return Err(format!("expected ',' or ']' at {}", self.i)),
                    }
                }
                Ok(J::Arr(a))
            }
            b'"' => {
                self.i += 1;
                let mut out: Vec<u8> = Vec::new();
                while self.i < self.s.len() {
                    let c = self.s[self.i];
                    self.i += 1;
                    match c {
                        b'"' => return String::from_utf8(out).map(J::Str).map_err(|e| e.to_string()),
                        b'\\' => {
                            let e = *self.s.get(self.i).ok_or("bad escape")?;
                            self.i += 1;
                            match e {
                                b'n' => out.push(b'\n'),
                                b'r' => out.push(b'\r'),
                                b't' => out.push(b'\t'),
                                b'b' => out.push(8),
                                b'f' => out.push(12),
                                b'u' => {
                                    let hex = std::str::from_utf8(&self.s[self.i..self.i + 4]).map_err(|e| e.to_string())?;
                                    let cp = u32::from_str_radix(hex, 16).map_err(|e| e.to_string())?;
                                    self.i += 4;
                                    let ch = char::from_u32(cp).unwrap_or('?');
                                    let mut buf = [0u8; 4];
                                    out.extend_from_slice(ch.encode_utf8(&mut buf).as_bytes());
                                }
                                other => out.push(other),
                            }
                        }
                        other => out.push(other),
                    }
                }
                Err("unterminated string".into())
            }
            b't' if self.s[self.i..].starts_with(b"true") => {
                self.i += 4;
                Ok(J::Bool(true))
            }
            b'f' if self.s[self.i..].starts_with(b"false") => {
                self.i += 5;
                Ok(J::Bool(false))
            }
            b'n' if self.s[self.i..].starts_with(b"null") => {
                self.i += 4;
                Ok(J::Null)
            }
            _ => {
                let st = self.i;
                while self.i < self.s.len() && matches!(self.s[self.i], b'-' | b'+' | b'.' | b'e' | b'E' | b'0'..=b'9') {
                    self.i += 1;
                }
                let t = std::str::from_utf8(&self.s[st..self.i]).unwrap();
                if let Ok(i) = t.parse::<i128>() {
                    Ok(J::Int(i))
                } else {
                    t.parse::<f64>().map(J::Num).map_err(|_| format!("bad token at {}", st))
                }
            }
        }
    }
    fn peek(&self) -> Option<u8> {
        self.s.get(self.i).copied()
    }
}

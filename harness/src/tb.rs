//! Retrograde distance-to-mate tables over the rules oracle (backward reachability), for C11.
#![allow(dead_code)]
use crate::rules::{self, Mv, Pos};
use std::collections::HashMap;
use std::sync::atomic::{AtomicUsize, Ordering};

/// value for the side to move, in plies
#[derive(Clone, Copy, PartialEq, Eq, Debug)]
pub enum Val {
    Win(u16),  // side to move mates in that many plies (odd)
    Loss(u16), // side to move is mated in that many plies (even, 0 = checkmated)
    Draw,
}

pub struct Table {
    pub index: HashMap<Pos, u32>,
    pub positions: Vec<Pos>,
    pub children: Vec<Vec<u32>>, // u32::MAX = child outside the table (bare kings etc.): draw
    pub moves: Vec<Vec<Mv>>,
    pub val: Vec<Val>,
}

impl Table {
    pub fn get(&self, pos: &Pos) -> Option<Val> {
        self.index.get(pos).map(|i| self.val[*i as usize])
    }
    pub fn max_win(&self) -> u16 {
        self.val.iter().filter_map(|v| if let Val::Win(n) = v { Some(*n) } else { None }).max().unwrap_or(0)
    }
}

/// Build the table for all legal positions of two kings plus the given extra pieces (each anywhere),
/// closed under the oracle's moves (captures lead outside = draw unless the successor is in the table).
pub fn build(extra: &[u8], threads: usize) -> Table {
    // enumerate
    let mut positions: Vec<Pos> = Vec::new();
    let mut place = |base: &Pos, positions: &mut Vec<Pos>| {
        for stm in [rules::WHITE, rules::BLACK] {
            let mut p = *base;
            p.stm = stm;
            if p.is_legal_position() {
                positions.push(p);
            }
        }
    };
    fn rec(extra: &[u8], i: usize, base: &mut Pos, out: &mut Vec<Pos>, place: &mut dyn FnMut(&Pos, &mut Vec<Pos>)) {
        if i == extra.len() {
            place(base, out);
            return;
        }
        for sq in 0..64u8 {
            if base.b[sq as usize] != rules::EMPTY {
                continue;
            }
            if rules::kind_of(extra[i]) == rules::P && (rules::rank_of(sq) == 0 || rules::rank_of(sq) == 7) {
                continue;
            }
            base.b[sq as usize] = extra[i];
            rec(extra, i + 1, base, out, place);
            base.b[sq as usize] = rules::EMPTY;
        }
    }
    for wk in 0..64u8 {
        for bk in 0..64u8 {
            if wk == bk {
                continue;
            }
            let mut base = Pos::empty();
            base.b[wk as usize] = rules::pc(rules::WHITE, rules::K);
            base.b[bk as usize] = rules::pc(rules::BLACK, rules::K);
            rec(extra, 0, &mut base, &mut positions, &mut place);
        }
    }
    let mut index: HashMap<Pos, u32> = HashMap::with_capacity(positions.len() * 2);
    for (i, p) in positions.iter().enumerate() {
        index.insert(*p, i as u32);
    }
    // successor lists, in parallel
    let n = positions.len();
    let mut children: Vec<Vec<u32>> = vec![Vec::new(); n];
    let mut moves: Vec<Vec<Mv>> = vec![Vec::new(); n];
    {
        let chunk = 4096;
        let next = AtomicUsize::new(0);
        let results: std::sync::Mutex<Vec<(usize, Vec<Vec<u32>>, Vec<Vec<Mv>>)>> = std::sync::Mutex::new(Vec::new());
        std::thread::scope(|s| {
            for _ in 0..threads {
                s.spawn(|| loop {
                    let st = next.fetch_add(chunk, Ordering::Relaxed);
                    if st >= n {
                        break;
                    }
                    let en = (st + chunk).min(n);
                    let mut cs = Vec::with_capacity(en - st);
                    let mut ms = Vec::with_capacity(en - st);
                    for p in &positions[st..en] {
                        let lm = p.legal_moves();
                        cs.push(lm.iter().map(|m| *index.get(&p.make(m)).unwrap_or(&u32::MAX)).collect::<Vec<u32>>());
                        ms.push(lm);
                    }
                    results.lock().unwrap().push((st, cs, ms));
                });
            }
        });
        for (st, cs, ms) in results.into_inner().unwrap() {
            for (i, (c, m)) in cs.into_iter().zip(ms.into_iter()).enumerate() {
                children[st + i] = c;
                moves[st + i] = m;
            }
        }
    }
    // value iteration by increasing ply
    let mut val = vec![Val::Draw; n];
    let mut resolved = vec![false; n];
    for i in 0..n {
        if children[i].is_empty() && positions[i].in_check(positions[i].stm) {
            val[i] = Val::Loss(0);
            resolved[i] = true;
        } else if children[i].is_empty() {
            resolved[i] = true; // stalemate: draw
        }
    }
    let mut ply: u16 = 1;
    let mut last_change: u16 = 0;
    loop {
        let mut newly: Vec<(usize, Val)> = Vec::new();
        for i in 0..n {
            if resolved[i] {
                continue;
            }
            if ply % 2 == 1 {
                // win in `ply` if some child is a loss in ply-1
                if children[i].iter().any(|&c| c != u32::MAX && val[c as usize] == Val::Loss(ply - 1)) {
                    newly.push((i, Val::Win(ply)));
                }
            } else {
                // loss in `ply` if every child is a (resolved) win for the opponent
                let all_wins = children[i].iter().all(|&c| c != u32::MAX && matches!(val[c as usize], Val::Win(_)));
                if all_wins {
                    newly.push((i, Val::Loss(ply)));
                }
            }
        }
        if !newly.is_empty() {
            last_change = ply;
        }
        for (i, v) in newly {
            val[i] = v;
            resolved[i] = true;
        }
        if ply - last_change >= 2 || ply > 400 {
            break;
        }
        ply += 1;
    }
    Table { index, positions, children, moves, val }
}

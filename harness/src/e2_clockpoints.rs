//! E2 — every clock-expiry index of the real get_best_move (virtual clock), on the calling thread.
//! Serves C07, C18, C03(b), C10 (search part), C11, C12.
#![allow(dead_code)]
use crate::board::BoardState;
use crate::bridge::*;
use crate::draw_table::DrawTable;
use crate::engine::get_best_move;
use crate::json::J;
use crate::report::Report;
use crate::rules::{self, Mv, Pos};
use crate::zobrist::ZobristHasher;
use std::collections::BTreeMap;
use std::panic::{catch_unwind, AssertUnwindSafe};
use std::sync::atomic::{AtomicU64, AtomicUsize, Ordering};
use std::sync::mpsc;
use std::time::Instant;

pub fn threads() -> usize {
    std::thread::available_parallelism().map(|n| n.get()).unwrap_or(8).min(16)
}

pub fn panic_text(e: Box<dyn std::any::Any + Send>) -> String {
    if let Some(s) = e.downcast_ref::<&str>() {
        s.to_string()
    } else if let Some(s) = e.downcast_ref::<String>() {
        s.clone()
    } else {
        "panic".to_string()
    }
}

#[derive(Clone, Debug, PartialEq)]
pub struct Info {
    pub pv: Vec<String>,
    pub depth: u32,
    pub nodes: u64,
    pub mate: Option<i64>,
    pub cp: Option<i64>,
    pub raw: String,
}

/// Parse an info line strictly by the grammar of C18. Err(reason) if malformed.
pub fn parse_info(line: &str) -> Result<Info, String> {
    let t: Vec<&str> = line.split(' ').collect();
    if t.len() < 11 || t[0] != "info" || t[1] != "pv" {
        return Err("does not start with 'info pv <move>'".into());
    }
    let mut i = 2;
    let mut pv = Vec::new();
    while i < t.len() && t[i] != "depth" {
        let m = t[i];
        let ok = m.len() == 4 && {
            let b = m.as_bytes();
            (b'a'..=b'h').contains(&b[0]) && (b'1'..=b'8').contains(&b[1]) && (b'a'..=b'h').contains(&b[2]) && (b'1'..=b'8').contains(&b[3])
        };
        if !ok {
            return Err(format!("pv element '{}' is not <sq><sq>", m));
        }
        pv.push(m.to_string());
        i += 1;
    }
    if pv.is_empty() {
        return Err("empty pv".into());
    }
    if t.len() != i + 9 || t[i] != "depth" || t[i + 2] != "nodes" || t[i + 4] != "score" || t[i + 7] != "time" {
        return Err("fields after pv are not 'depth D nodes N score (cp X|mate Y) time T'".into());
    }
    let depth: u32 = t[i + 1].parse().map_err(|_| "depth not a number")?;
    let nodes: u64 = t[i + 3].parse().map_err(|_| "nodes not a number")?;
    let val: i64 = t[i + 6].parse().map_err(|_| "score not a number")?;
    let _time: u64 = t[i + 8].parse().map_err(|_| "time not a number")?;
    let (mate, cp) = match t[i + 5] {
        "cp" => (None, Some(val)),
        "mate" => (Some(val), None),
        _ => return Err("score kind is neither cp nor mate".into()),
    };
    Ok(Info { pv, depth, nodes, mate, cp, raw: line.to_string() })
}

/// info line without its time field (display only)
pub fn strip_time(line: &str) -> String {
    match line.rfind(" time ") {
        Some(i) => line[..i].to_string(),
        None => line.to_string(),
    }
}

pub struct SearchRun {
    pub sent: Vec<BoardState>,
    pub infos: Vec<String>,
    pub queries: u64,
    pub panicked: Option<String>,
    pub table_after: DrawTable,
}

/// Run the real search on the calling thread. `expiry`: index of the first clock consultation that
/// answers "expired" (None = never), `stop_depth`: stop after that iteration (0 = never).
pub fn run_search(board: &BoardState, table: &DrawTable, expiry: Option<u64>, stop_depth: u8) -> SearchRun {
    run_search_with_allowance(board, table, expiry, stop_depth, 1_000_000)
}

/// the same with the numeric allowance handed to the search chosen by the caller (under the virtual clock the
/// number decides nothing: whatever the search derives from it must not change what it reports)
pub fn run_search_with_allowance(board: &BoardState, table: &DrawTable, expiry: Option<u64>, stop_depth: u8, allowance_ms: u128) -> SearchRun {
    assert!(expiry.is_some() || stop_depth > 0, "an unexpired search needs a depth stop");
    let (tx, rx) = mpsc::channel();
    let mut t = table.clone();
    crate::verif::arm_thread(expiry, stop_depth, true);
    let r = catch_unwind(AssertUnwindSafe(|| get_best_move(board, &mut t, Instant::now(), allowance_ms, &tx)));
    let queries = crate::verif::clock_queries();
    let infos = crate::verif::take_capture();
    crate::verif::disarm_thread();
    let sent: Vec<BoardState> = rx.try_iter().collect();
    SearchRun { sent, infos, queries, panicked: r.err().map(panic_text), table_after: t }
}

pub fn boards_equal(a: &BoardState, b: &BoardState) -> bool {
    a.board == b.board
        && a.to_move == b.to_move
        && a.pawn_double_move == b.pawn_double_move
        && a.white_king_location == b.white_king_location
        && a.black_king_location == b.black_king_location
        && a.white_king_side_castle == b.white_king_side_castle
        && a.white_queen_side_castle == b.white_queen_side_castle
        && a.black_king_side_castle == b.black_king_side_castle
        && a.black_queen_side_castle == b.black_queen_side_castle
        && a.last_move == b.last_move
        && a.pawn_promotion == b.pawn_promotion
        && a.zobrist_key == b.zobrist_key
}

/// the table as a count function (keys with count 0 are absent)
pub fn table_counts(t: &DrawTable) -> BTreeMap<u64, u8> {
    t.table.iter().filter(|(_, c)| **c != 0).map(|(k, c)| (*k, *c)).collect()
}

/// A root of the search: a position plus the repetition record a `position` command leaves.
#[derive(Clone)]
pub struct Root {
    pub name: String,
    pub command: String, // the position command that produces it
    pub board: BoardState,
    pub table: DrawTable,
    pub pos: Pos,
}

pub fn root_from_command(cmd: &str, h: &ZobristHasher) -> Root {
    let tokens: Vec<&str> = cmd.split(' ').collect();
    let mut table = DrawTable::new();
    let board = match catch_unwind(AssertUnwindSafe(|| crate::uci::verif_play_out_position(&tokens, h, &mut table))) {
        Ok(b) => b,
        Err(e) => crate::report::machinery_error(&format!("root command '{}' panicked: {}", cmd, panic_text(e))),
    };
    let pos = pos_of_board(&board).unwrap_or_else(|| crate::report::machinery_error(&format!("root command '{}' gives an unreadable board", cmd)));
    Root { name: cmd.to_string(), command: cmd.to_string(), board, table, pos }
}

pub fn root_from_fen(fen: &str, h: &ZobristHasher) -> Root {
    root_from_command(&format!("position fen {}", fen), h)
}

pub const C07_ROOTS: &[&str] = &[
    "position startpos",
    "position fen r3k2r/p1ppqpb1/bn2pnp1/3PN3/1p2P3/2N2Q1p/PPPBBPPP/R3K2R w KQkq - 0 1",
    "position fen r4rk1/1pp1qppp/p1np1n2/2b1p1B1/2B1P1b1/P1NP1N2/1PP1QPPP/R4RK1 w - - 0 10",
    "position fen rnbq1k1r/pp1Pbppp/2p5/8/2B5/8/PPP1NnPP/RNBQK2R w KQ - 1 8",
    "position fen 8/2p5/3p4/KP5r/1R3p1k/8/4P1P1/8 w - - 0 1",
    "position fen 4k3/8/8/8/8/8/4q3/4K3 w - - 0 1",             // root in check, single legal move
    "position fen 7k/8/8/8/8/8/8/K7 w - - 0 1",                  // bare kings
    "position fen 1n2k2r/P7/8/8/8/8/8/4K3 w k - 0 1",            // promotion available
    "position fen 6k1/5ppp/8/8/8/8/8/R3K3 w Q - 0 1",            // mate in 1 available
    "position fen 7k/8/5K2/6Q1/8/8/8/8 w - - 0 1",               // mate in 1, stalemate traps
    "position fen k7/8/1K6/8/8/8/8/7R w - - 0 1",                // mate in 1 (Rh8)
    "position fen 8/8/8/8/8/5k2/7p/7K b - - 0 1",                // promotion next to stalemate
    "position fen 4k3/8/8/K2pP2r/8/8/8/8 w - d6 0 1",            // en passant at the root (pinned)
    "position fen 2k5/8/8/8/8/8/3R4/2K1R3 w - - 0 1",            // KRRK
    "position fen 8/8/4k3/8/8/3K4/3P4/8 w - - 0 1",              // KPK
    "position fen r1bqkb1r/pppp1ppp/2n2n2/4p2Q/2B1P3/8/PPPP1PPP/RNB1K1NR w KQkq - 4 4", // scholar's mate available
    "position fen 8/8/8/8/8/2k5/1q6/K7 w - - 0 1",               // root in check, one move
    "position fen 7k/5K2/8/8/8/8/8/6Q1 b - - 0 1",              // the side to move is mated next move whatever it does
    "position fen 8/8/8/8/8/1k6/8/K6r w - - 0 1",               // lost KRK, in check
    "position fen 7k/8/8/8/8/8/6q1/K7 w - - 0 1",               // lost KQK
    // capture searches of 10^4 .. 10^5 nodes below the very first root move: the clock is looked at inside them
    "position fen k7/8/2pppp2/1bqqqqb1/1BQQQQB1/2PPPP2/8/K7 w - - 0 1",
    "position fen K5N1/p2B2PP/1PPk3r/Pp1P2pb/rP1p2Q1/Bnp1pp2/2pPb1qR/1n1R2N1 w - - 0 1",
    // roots with a preloaded repetition record in which a repetition move exists
    "position fen 8/8/k7/p7/P7/K7/8/8 w - - 0 1 moves a3b3 a6b6 b3a3 b6a6",
    "position fen 7k/8/8/8/8/8/R7/K7 w - - 0 1 moves a2b2 h8g8 b2a2 g8h8 a2b2 h8g8 b2a2 g8h8",
    "position startpos moves g1f3 g8f6 f3g1 f6g8 g1f3 g8f6 f3g1 f6g8",
];

pub fn c07_roots(h: &ZobristHasher) -> Vec<Root> {
    C07_ROOTS.iter().map(|c| root_from_command(c, h)).collect()
}

/// Oracle data of a root: legal moves and the engine's own generated successors
pub struct RootFacts {
    pub legal: Vec<Mv>,
    pub successors: Vec<BoardState>,
}

pub fn root_facts(root: &Root, h: &ZobristHasher) -> RootFacts {
    RootFacts { legal: root.pos.legal_moves(), successors: crate::move_generation::generate_moves(&root.board, crate::move_generation::MoveGenerationMode::AllMoves, h) }
}

fn case_json(root: &Root, k: Option<u64>, depth: u8) -> J {
    J::obj()
        .set("kind", J::s("e2-search"))
        .set("position_command", J::s(&root.command))
        .set("position_fen", J::s(&root.pos.fen()))
        .set("expiry_index", match k { Some(k) => J::Int(k as i128), None => J::s("never") })
        .set("stop_after_iteration", J::Int(depth as i128))
}

/// C18's oracle on the info lines of one run. `sent` are the boards sent in the same run.
pub fn check_infos(rep: &Report, root: &Root, facts: &RootFacts, run: &SearchRun, k: Option<u64>, depth: u8, lines_checked: &AtomicU64) {
    let mut last_depth = 0u32;
    let mut last_score: Option<i64> = None;
    // boards and info lines correspond 1:1, except for the single fallback board of a run without infos
    let fallback = run.infos.is_empty() && run.sent.len() == 1;
    if !fallback && run.infos.len() != run.sent.len() {
        rep.fail("C18", "info-and-move-counts-differ", format!("{}: {} boards sent, {} info lines", root.name, run.sent.len(), run.infos.len()), case_json(root, k, depth));
    }
    for (i, line) in run.infos.iter().enumerate() {
        lines_checked.fetch_add(1, Ordering::Relaxed);
        let info = match parse_info(line) {
            Ok(x) => x,
            Err(e) => {
                rep.fail("C18", "malformed-info-line", format!("{}: '{}': {}", root.name, line, e), case_json(root, k, depth).set("line", J::s(line)));
                continue;
            }
        };
        if info.depth < 1 || info.depth < last_depth {
            rep.fail("C18", "depth-not-monotone", format!("{}: depth {} after {} in '{}'", root.name, info.depth, last_depth, line), case_json(root, k, depth).set("line", J::s(line)));
        }
        let score_key: i64 = match (info.mate, info.cp) {
            (Some(m), _) => {
                if m == 0 {
                    rep.fail("C18", "mate-zero", format!("{}: '{}'", root.name, line), case_json(root, k, depth).set("line", J::s(line)));
                }
                // order mate scores around cp scores: mate N>0 above everything, shorter mates higher
                if m > 0 { 1_000_000 - m } else { -1_000_000 - m }
            }
            (_, Some(cp)) => {
                if cp.abs() >= 9_999_999 {
                    rep.fail("C18", "score-is-infinity-sentinel", format!("{}: '{}'", root.name, line), case_json(root, k, depth).set("line", J::s(line)));
                } else if cp.abs() > 100_000 {
                    rep.fail("C18", "score-beyond-mate-magnitude", format!("{}: '{}'", root.name, line), case_json(root, k, depth).set("line", J::s(line)));
                }
                cp
            }
            _ => 0,
        };
        if info.depth == last_depth {
            if let Some(prev) = last_score {
                if score_key <= prev {
                    rep.fail("C18", "score-not-increasing-within-depth", format!("{}: '{}' after a line with score key {}", root.name, line, prev), case_json(root, k, depth).set("line", J::s(line)));
                }
            }
        }
        last_depth = info.depth;
        last_score = Some(score_key);
        // first pv move: legal in the root (by from,to) and the move of the board sent with this line
        let first = &info.pv[0];
        if !facts.legal.iter().any(|m| &m.uci()[..4] == first.as_str()) {
            rep.fail("C18", "first-pv-move-illegal", format!("{}: '{}' names {} which is not legal in the root", root.name, line, first), case_json(root, k, depth).set("line", J::s(line)));
        }
        if let Some(b) = run.sent.get(i) {
            if let Some((f, t)) = last_move_sq(b) {
                let mv = format!("{}{}", rules::sq_name(f), rules::sq_name(t));
                if &mv != first {
                    rep.fail("C18", "first-pv-move-differs-from-sent-move", format!("{}: '{}' but the board sent with it is {}", root.name, line, mv), case_json(root, k, depth).set("line", J::s(line)));
                }
            }
        }
    }
}

/// C03(b): every board sent is element-wise one of the root's generated successors (and legal by the rules)
pub fn check_sent_are_successors(rep: &Report, prop: &str, root: &Root, facts: &RootFacts, run: &SearchRun, k: Option<u64>, depth: u8) {
    for b in &run.sent {
        let is_succ = facts.successors.iter().any(|s| boards_equal(s, b));
        let legal = move_of_successor(&root.pos, b).map(|m| facts.legal.contains(&m)).unwrap_or(false);
        if !is_succ || !legal {
            rep.fail(prop, "sent-board-is-not-a-root-successor", format!("{}: search handed back a board (descriptor {:?}) that is not a generated successor of the root / not legal", root.name, last_move_sq(b).map(|(f, t)| format!("{}{}", rules::sq_name(f), rules::sq_name(t)))), case_json(root, k, depth));
        }
    }
    if !facts.legal.is_empty() && run.sent.is_empty() && run.panicked.is_none() {
        rep.fail(prop, "nothing-sent", format!("{}: the search returned without handing back any move although the root has {} legal moves", root.name, facts.legal.len()), case_json(root, k, depth));
    }
}

pub struct C07Stats {
    pub points: AtomicU64,
    pub node_queries: AtomicU64,
    pub repeats: AtomicU64,
    pub info_lines: AtomicU64,
    pub residual_zero_entries: AtomicU64,
    pub answers_changed_by_expiry: AtomicU64,
}

/// Enumerate every expiry index of every root. `verdict_props`: which oracles are this run's verdicts is
/// decided by Report::fail (others count as guards).
pub fn sweep_expiry(rep: &Report, roots: &[Root], depth_of: &dyn Fn(&Root) -> u8, repeat_all: bool, stats: &C07Stats) {
    let h = ZobristHasher::create_zobrist_hasher();
    for (ri, root) in roots.iter().enumerate() {
        let facts = root_facts(root, &h);
        if facts.legal.is_empty() {
            continue;
        }
        let depth = depth_of(root);
        // reference: the un-expired run to the end of iteration `depth`
        let r = run_search(&root.board, &root.table, None, depth);
        if let Some(p) = &r.panicked {
            rep.fail("C07", "search-panic", format!("{}: un-expired search to depth {} panicked: {}", root.name, depth, p), case_json(root, None, depth));
            continue;
        }
        let kmax = r.queries;
        check_infos(rep, root, &facts, &r, None, depth, &stats.info_lines);
        check_sent_are_successors(rep, "C03", root, &facts, &r, None, depth);
        let r_infos: Vec<String> = r.infos.iter().map(|l| strip_time(l)).collect();
        let given = table_counts(&root.table);
        if table_counts(&r.table_after) != given {
            rep.fail("C07", "record-not-restored", format!("{}: repetition record differs after the un-expired search", root.name), case_json(root, None, depth));
        }
        let distinct_prefixes = AtomicU64::new(0);
        let idx = AtomicU64::new(0);
        let seen_lens: std::sync::Mutex<std::collections::BTreeSet<usize>> = std::sync::Mutex::new(Default::default());
        std::thread::scope(|s| {
            for _ in 0..threads() {
                s.spawn(|| loop {
                    let k = idx.fetch_add(1, Ordering::Relaxed);
                    if k > kmax {
                        break;
                    }
                    let run = run_search(&root.board, &root.table, Some(k), depth);
                    stats.points.fetch_add(1, Ordering::Relaxed);
                    stats.node_queries.fetch_add(run.queries, Ordering::Relaxed);
                    if let Some(p) = &run.panicked {
                        rep.fail("C07", "search-panic", format!("{}: expiry at consultation {}: {}", root.name, k, p), case_json(root, Some(k), depth));
                        continue;
                    }
                    // (2) boards sent = prefix of the reference sequence; at least one
                    let n = run.sent.len();
                    let prefix_ok = n <= r.sent.len() && run.sent.iter().zip(r.sent.iter()).all(|(a, b)| boards_equal(a, b));
                    if !prefix_ok {
                        rep.fail("C07", "improvements-not-a-prefix", format!("{}: expiry at consultation {} of {}: the {} moves handed back are not a prefix of the un-expired run's {} moves", root.name, k, kmax, n, r.sent.len()), case_json(root, Some(k), depth).set("sent", J::strs(&run.sent.iter().map(|b| format!("{:?}", last_move_sq(b))).collect::<Vec<_>>())));
                    }
                    if n == 0 {
                        rep.fail("C07", "nothing-handed-back", format!("{}: expiry at consultation {}: no move handed back", root.name, k), case_json(root, Some(k), depth));
                    }
                    // (3) info lines = the corresponding prefix (or none for the fallback)
                    let infos: Vec<String> = run.infos.iter().map(|l| strip_time(l)).collect();
                    let fallback = infos.is_empty() && n == 1;
                    if !fallback && (infos.len() != n || infos[..] != r_infos[..n.min(r_infos.len())]) {
                        rep.fail("C07", "reported-improvements-not-a-prefix", format!("{}: expiry at consultation {}: info lines {:?} are not the prefix of the un-expired run's", root.name, k, infos), case_json(root, Some(k), depth));
                    }
                    // (4) legal root successors, C18 on the lines
                    check_sent_are_successors(rep, "C03", root, &facts, &run, Some(k), depth);
                    check_infos(rep, root, &facts, &run, Some(k), depth, &stats.info_lines);
                    // (5) repetition record as a count function
                    if table_counts(&run.table_after) != given {
                        rep.fail("C07", "record-not-restored", format!("{}: expiry at consultation {}: repetition record differs from the one given", root.name, k), case_json(root, Some(k), depth));
                    }
                    let zeros = run.table_after.table.values().filter(|c| **c == 0).count();
                    stats.residual_zero_entries.fetch_add(zeros as u64, Ordering::Relaxed);
                    if seen_lens.lock().unwrap().insert(n * 2 + fallback as usize) {
                        distinct_prefixes.fetch_add(1, Ordering::Relaxed);
                    }
                    // (6) determinism
                    if repeat_all || ri < 3 || k % 17 == 0 {
                        let again = run_search(&root.board, &root.table, Some(k), depth);
                        stats.repeats.fetch_add(1, Ordering::Relaxed);
                        let same = again.sent.len() == run.sent.len() && again.sent.iter().zip(run.sent.iter()).all(|(a, b)| boards_equal(a, b)) && again.infos.iter().map(|l| strip_time(l)).collect::<Vec<_>>() == infos && again.queries == run.queries;
                        if !same {
                            rep.fail("C07", "nondeterministic", format!("{}: expiry at consultation {} gives different traces when repeated", root.name, k), case_json(root, Some(k), depth));
                        }
                    }
                });
            }
        });
        stats.answers_changed_by_expiry.fetch_add(distinct_prefixes.load(Ordering::Relaxed), Ordering::Relaxed);
        rep.sample(
            J::obj()
                .set("root", J::s(&root.name))
                .set("iterations", J::Int(depth as i128))
                .set("clock_consultations_of_the_unexpired_run", J::Int(kmax as i128))
                .set("expiry_points_enumerated", J::Int(kmax as i128 + 1))
                .set("improvements_of_the_unexpired_run", J::strs(&r_infos))
                .set("distinct_outcomes_over_all_expiry_points", J::Int(distinct_prefixes.load(Ordering::Relaxed) as i128)),
        );
    }
}


/// C07, last clause, in its literal reading: a larger (or any other) numeric allowance never changes the
/// sequence of improvements. The un-expired run of each root is repeated for a grid of allowances — every
/// {1,2,3,5} x 10^e up to 10^12 with its two neighbours, every 2^k with its neighbours up to 2^64, u128::MAX —
/// and must report and hand back exactly what the baseline does.
pub fn allowance_independence(rep: &Report, roots: &[Root], depth_of: &dyn Fn(&Root) -> u8) -> u64 {
    let depths: Vec<u8> = roots.iter().map(|r| depth_of(r)).collect();
    let mut grid: Vec<u128> = vec![u128::MAX, u64::MAX as u128, (u64::MAX as u128) + 1];
    for e in 0..=12u32 {
        for m in [1u128, 2, 3, 5] {
            let v = m * 10u128.pow(e);
            grid.extend_from_slice(&[v.saturating_sub(1), v, v + 1]);
        }
    }
    for k in (4..=64u32).step_by(2) {
        let v = 1u128 << k;
        grid.extend_from_slice(&[v - 1, v, v + 1]);
    }
    grid.sort();
    grid.dedup();
    grid.retain(|v| *v != 0); // a zero allowance means 'answer at once' by design: not a size of allowance
    let jobs: Vec<(usize, usize)> = (0..roots.len()).flat_map(|r| (0..grid.len()).map(move |g| (r, g))).collect();
    let base: Vec<SearchRun> = crate::e4_session::run_parallel(roots.len(), |i| run_search(&roots[i].board, &roots[i].table, None, depths[i]));
    crate::e4_session::run_parallel(jobs.len(), |j| {
        let (r, g) = jobs[j];
        let root = &roots[r];
        let run = run_search_with_allowance(&root.board, &root.table, None, depths[r], grid[g]);
        let a: Vec<String> = base[r].infos.iter().map(|l| strip_time(l)).collect();
        let b: Vec<String> = run.infos.iter().map(|l| strip_time(l)).collect();
        let same_sent = base[r].sent.len() == run.sent.len() && base[r].sent.iter().zip(run.sent.iter()).all(|(x, y)| boards_equal(x, y));
        if a != b || !same_sent || run.panicked.is_some() {
            let first = a.iter().zip(b.iter()).position(|(x, y)| x != y).unwrap_or(a.len().min(b.len()));
            rep.fail(
                "C07",
                "improvements-depend-on-the-size-of-the-allowance",
                format!("{}: with an allowance of {} ms the un-expired search reports {:?} where it reports {:?} with 1000000 ms (line {} of {}/{}; panic: {:?})", root.name, grid[g], b.get(first), a.get(first), first + 1, b.len(), a.len(), run.panicked),
                case_json(root, None, depths[r]).set("allowance_ms", J::s(&grid[g].to_string())),
            );
        }
    });
    jobs.len() as u64
}


/// Roots whose iterations cost next to nothing but whose lines stay long: fortresses (two blocked pawn walls,
/// each king walks its own back rank). The search runs all 99 iterations in milliseconds and nests null moves
/// far deeper than on any ordinary root (plies around 70): whatever is indexed by the ply has to hold it.
/// The whole search is run (no depth stop): it must end by itself, without a panic, every line well-formed.
pub fn fortress_full_searches(rep: &Report, info_lines: &AtomicU64) -> u64 {
    let h = ZobristHasher::create_zobrist_hasher();
    let quick = rep.quick();
    let mut roots: Vec<Pos> = Vec::new();
    let walls = ["p1p1p1p1/P1P1P1P1/8/8/p1p1p1p1/P1P1P1P1", "1p1p1p1p/1P1P1P1P/8/8/1p1p1p1p/1P1P1P1P", "pp1pp1pp/PP1PP1PP/8/8/8/8"];
    for (wi, wall) in walls.iter().enumerate() {
        for wk in 0..8i8 {
            for bk in 0..8i8 {
                if quick && !((wk == bk && wk % 3 == 0) || (wk == 0 && bk == 7)) {
                    continue;
                }
                for stm in ["w", "b"] {
                    let mut rank1 = String::new();
                    let mut rank8 = String::new();
                    for f in 0..8i8 {
                        rank1.push(if f == wk { 'K' } else { '1' });
                        rank8.push(if f == bk { 'k' } else { '1' });
                    }
                    let squeeze = |r: &str| -> String {
                        let mut out = String::new();
                        let mut n = 0;
                        for ch in r.chars() {
                            if ch == '1' {
                                n += 1;
                            } else {
                                if n > 0 {
                                    out.push_str(&n.to_string());
                                    n = 0;
                                }
                                out.push(ch);
                            }
                        }
                        if n > 0 {
                            out.push_str(&n.to_string());
                        }
                        out
                    };
                    let fen = format!("{}/{}/{} {} - - 0 1", squeeze(&rank8), wall, squeeze(&rank1), stm);
                    if let Some(p) = Pos::from_fen(&fen) {
                        if p.is_legal_position() && !p.legal_moves().is_empty() && (wi < 2 || !quick) {
                            roots.push(p);
                        }
                    }
                }
            }
        }
    }
    let cap: u64 = 3_000_000;
    let deepest_ply_seen = AtomicU64::new(0);
    crate::e4_session::run_parallel(roots.len(), |i| {
        let pos = &roots[i];
        let root = Root { name: pos.fen(), command: format!("position fen {}", pos.fen()), board: board_of_pos(pos, &h), table: { let mut t = DrawTable::new(); t.table.insert(board_of_pos(pos, &h).zobrist_key, 1); t }, pos: *pos };
        let run = run_search(&root.board, &root.table, Some(cap), 0);
        let facts = RootFacts { legal: pos.legal_moves(), successors: Vec::new() };
        check_infos(rep, &root, &facts, &run, Some(cap), 0, info_lines);
        let deepest = run.infos.iter().filter_map(|l| parse_info(l).ok()).map(|i| i.depth).max().unwrap_or(0);
        let longest_pv = run.infos.iter().map(|l| l.split(" depth ").next().unwrap_or("").split_whitespace().count().saturating_sub(2)).max().unwrap_or(0);
        deepest_ply_seen.fetch_max(longest_pv as u64, Ordering::Relaxed);
        if let Some(p) = &run.panicked {
            rep.fail("C07", "search-panic/deep-iterations-on-a-fortress", format!("{}: the search panicked in iteration {}: {}", root.name, deepest + 1, p), case_json(&root, Some(cap), 0));
        } else if run.queries >= cap {
            rep.note(format!("{}: the whole search needs more than {} clock consultations (reached iteration {}): not run to its end", root.name, cap, deepest));
        } else if deepest != 99 {
            rep.fail("C18", "search-ends-before-its-depth-limit", format!("{}: the search ended by itself after iteration {} (no panic reported)", root.name, deepest), case_json(&root, Some(cap), 0));
        }
    });
    rep.add("fortress_roots_searched_to_the_end_of_iteration_99", roots.len() as u64);
    rep.add("longest_principal_variation_reported_on_a_fortress_root", deepest_ply_seen.load(Ordering::Relaxed));
    roots.len() as u64
}

//! wmc — walleye model checker. The engine's sources are compiled into this crate from /repo's
//! working tree (the repository is a binary crate: there is no library to link).
#![allow(clippy::all)]
#![allow(dead_code, unused_imports)]

#[path = "/repo/src/board.rs"]
mod board;
#[path = "/repo/src/draw_table.rs"]
mod draw_table;
#[path = "/repo/src/engine.rs"]
mod engine;
#[path = "/repo/src/evaluation.rs"]
mod evaluation;
#[path = "/repo/src/move_generation.rs"]
mod move_generation;
#[path = "/repo/src/search.rs"]
mod search;
#[path = "/repo/src/time_control.rs"]
mod time_control;
#[path = "/repo/src/uci.rs"]
mod uci;
#[path = "/repo/src/utils.rs"]
mod utils;
#[path = "/repo/src/verif.rs"]
mod verif;
#[path = "/repo/src/zobrist.rs"]
mod zobrist;

mod bridge;
mod c10;
mod checks;
mod e1_posgraph;
mod e2_clockpoints;
mod e2_oracles;
mod e3_driver;
mod e4_session;
mod refsearch;
mod tb;
mod e5_pure;
mod json;
mod report;
mod rules;

#[global_allocator]
static GLOBAL: mimalloc::MiMalloc = mimalloc::MiMalloc;

fn usage() -> ! {
    eprintln!("usage: wmc check <C01..C18> <quick|thorough> | wmc replay <file> | wmc selftest");
    std::process::exit(2);
}

fn main() {
    // violations are found through catch_unwind: keep the default hook from flooding stderr
    std::panic::set_hook(Box::new(|_| {}));
    let args: Vec<String> = std::env::args().collect();
    if args.len() < 2 {
        usage();
    }
    match args[1].as_str() {
        "selftest" => match rules::self_test(u64::MAX) {
            Ok((n, nodes)) => println!("oracle reproduces {} published perft totals ({} nodes)", n, nodes),
            Err(e) => report::machinery_error(&e),
        },
        "check" => {
            if args.len() < 4 {
                usage();
            }
            let tier = if args[3] == "thorough" { "thorough" } else { "quick" };
            // a panic of the harness itself is a machinery failure (exit 2), never a verdict
            let id = args[2].clone();
            match std::panic::catch_unwind(move || checks::run(&id, tier)) {
                Ok(code) => std::process::exit(code),
                Err(e) => {
                    let msg = if let Some(s) = e.downcast_ref::<&str>() { s.to_string() } else if let Some(s) = e.downcast_ref::<String>() { s.clone() } else { "panic".to_string() };
                    eprintln!("MACHINERY-ERROR: the harness panicked: {}", msg);
                    std::process::exit(2);
                }
            }
        }
        "replay" => {
            if args.len() < 3 {
                usage();
            }
            std::process::exit(checks::replay(&args[2]));
        }
        "deltafind" => {
            let n = args.get(2).and_then(|x| x.parse().ok()).unwrap_or(1000);
            e2_oracles::deltafind(n);
        }
        "crosscheckfind" => {
            let n = args.get(2).and_then(|x| x.parse().ok()).unwrap_or(1000);
            e2_oracles::crosscheckfind(n);
        }
        "checkchainfind" => {
            let n = args.get(2).and_then(|x| x.parse().ok()).unwrap_or(1000);
            let d: i32 = args.get(3).and_then(|x| x.parse().ok()).unwrap_or(8);
            e2_oracles::checkchainfind(n, d);
        }
        "chainfind" => {
            let n = args.get(2).and_then(|x| x.parse().ok()).unwrap_or(1000);
            let d = args.get(3).and_then(|x| x.parse().ok()).unwrap_or(16);
            e2_oracles::chainfind(n, d);
        }
        _ => usage(),
    }
}

//! E5 — complete enumeration for pure functions: check detection (C06), time policy (C09),
//! evaluation (C14), FEN parser (C15).
#![allow(dead_code)]
use crate::board::{BoardState, Piece, PieceColor, PieceKind, Point, Square};
use crate::bridge::*;
use crate::evaluation::get_evaluation;
use crate::json::J;
use crate::move_generation::is_check;
use crate::report::Report;
use crate::rules::{self, Pos};
use crate::time_control::GameTime;
use crate::zobrist::ZobristHasher;
use std::collections::BTreeMap;
use std::panic::{catch_unwind, AssertUnwindSafe};
use std::sync::atomic::{AtomicU64, AtomicUsize, Ordering};

fn threads() -> usize {
    std::thread::available_parallelism().map(|n| n.get()).unwrap_or(8).min(16)
}

fn panic_text(e: Box<dyn std::any::Any + Send>) -> String {
    if let Some(s) = e.downcast_ref::<&str>() {
        s.to_string()
    } else if let Some(s) = e.downcast_ref::<String>() {
        s.clone()
    } else {
        "panic".to_string()
    }
}

/// Put a piece on (or clear) a square of a board under enumeration; the hash key is kept consistent with the
/// placement, as it is on every board the engine itself builds (a lookup keyed by it must stay sound here).
fn set_sq(board: &mut BoardState, pos: &mut Pos, sq: u8, p: u8, h: &ZobristHasher) {
    let pt = point_of_sq(sq);
    let old = pos.b[sq as usize];
    if old != rules::EMPTY {
        board.zobrist_key ^= h.get_val_for_piece(engine_piece(old), pt);
    }
    if p != rules::EMPTY {
        board.zobrist_key ^= h.get_val_for_piece(engine_piece(p), pt);
    }
    pos.b[sq as usize] = p;
    board.board[pt.0][pt.1] = if p == rules::EMPTY { Square::Empty } else { Square::Full(engine_piece(p)) };
}

// ================================================================================================ C06

/// All placements with exactly one king per side and 0..=extra further pieces, unfiltered; both colours asked.
pub fn run_c06(rep: &Report) -> i32 {
    let extra = 2; // both tiers: two further pieces (every attacker x blocker geometry), 7.6e8 placements in seconds
    let h = ZobristHasher::create_zobrist_hasher();
    let pieces: Vec<u8> = {
        let mut v = Vec::new();
        for c in [rules::WHITE, rules::BLACK] {
            for k in [rules::Q, rules::R, rules::B, rules::N, rules::P] {
                v.push(rules::pc(c, k));
            }
        }
        v
    };
    let states = AtomicU64::new(0);
    let calls = AtomicU64::new(0);
    let in_check_states = AtomicU64::new(0);
    let blocked = AtomicU64::new(0);
    let edge_rank_pawn_obs = AtomicU64::new(0);
    let idx = AtomicUsize::new(0);
    std::thread::scope(|s| {
        for _ in 0..threads() {
            s.spawn(|| {
                let mut local_states = 0u64;
                let mut local_check = 0u64;
                let mut local_blocked = 0u64;
                loop {
                    let item = idx.fetch_add(1, Ordering::Relaxed);
                    if item >= 64 * 64 {
                        break;
                    }
                    let (wk, bk) = ((item / 64) as u8, (item % 64) as u8);
                    if wk == bk {
                        continue;
                    }
                    let mut pos = Pos::empty();
                    pos.b[wk as usize] = rules::pc(rules::WHITE, rules::K);
                    pos.b[bk as usize] = rules::pc(rules::BLACK, rules::K);
                    let mut board = board_direct(&pos, &h);
                    let mut judge = |board: &BoardState, pos: &Pos, verdict: bool| {
                        local_states += 1;
                        for (color, ecolor) in [(rules::WHITE, PieceColor::White), (rules::BLACK, PieceColor::Black)] {
                            let want = pos.attacked(if color == rules::WHITE { wk } else { bk }, color ^ 1);
                            let got = match catch_unwind(AssertUnwindSafe(|| is_check(board, ecolor))) {
                                Ok(g) => g,
                                Err(e) => {
                                    rep.fail("C06", "is-check-panic", format!("{} : is_check panicked: {}", pos.fen(), panic_text(e)), J::obj().set("kind", J::s("c06")).set("placement_fen", J::s(&pos.fen())).set("colour", J::s(if color == 0 { "white" } else { "black" })));
                                    continue;
                                }
                            };
                            if want {
                                local_check += 1;
                            }
                            if got != want {
                                if verdict {
                                    let attackers: Vec<String> = (0..64u8).filter(|&s| pos.b[s as usize] != 0 && rules::color_of(pos.b[s as usize]) != color).map(|s| format!("{}{}", rules::piece_char(pos.b[s as usize]), rules::sq_name(s))).collect();
                                    let kinds: Vec<String> = (0..64u8).filter(|&s| pos.b[s as usize] != 0 && rules::kind_of(pos.b[s as usize]) != rules::K).map(|s| rules::piece_char(pos.b[s as usize]).to_string()).collect();
                                    rep.fail(
                                        "C06",
                                        &format!("{}-{}/{}", if got { "false-check" } else { "missed-check" }, if color == 0 { "white-king" } else { "black-king" }, kinds.join("")),
                                        format!("{} : engine says {} king in check = {}, rules say {} (enemy pieces: {})", pos.fen(), if color == 0 { "white" } else { "black" }, got, want, attackers.join(" ")),
                                        J::obj().set("kind", J::s("c06")).set("placement_fen", J::s(&pos.fen())).set("colour", J::s(if color == 0 { "white" } else { "black" })).set("engine", J::Bool(got)).set("rules", J::Bool(want)),
                                    );
                                } else {
                                    edge_rank_pawn_obs.fetch_add(1, Ordering::Relaxed);
                                }
                            }
                        }
                    };
                    judge(&board, &pos, true);
                    if extra >= 1 {
                        for (i, &x) in pieces.iter().enumerate() {
                            for s1 in 0..64u8 {
                                if s1 == wk || s1 == bk {
                                    continue;
                                }
                                let edge1 = rules::kind_of(x) == rules::P && (rules::rank_of(s1) == 0 || rules::rank_of(s1) == 7);
                                set_sq(&mut board, &mut pos, s1, x, &h);
                                judge(&board, &pos, !edge1);
                                if extra >= 2 {
                                    for &y in &pieces[i..] {
                                        let start = if x == y { s1 + 1 } else { 0 };
                                        for s2 in start..64u8 {
                                            if s2 == wk || s2 == bk || s2 == s1 {
                                                continue;
                                            }
                                            let edge2 = rules::kind_of(y) == rules::P && (rules::rank_of(s2) == 0 || rules::rank_of(s2) == 7);
                                            set_sq(&mut board, &mut pos, s2, y, &h);
                                            // a blocker case: the two pieces and a king are aligned
                                            judge(&board, &pos, !edge1 && !edge2);
                                            local_blocked += 1;
                                            set_sq(&mut board, &mut pos, s2, rules::EMPTY, &h);
                                        }
                                    }
                                }
                                set_sq(&mut board, &mut pos, s1, rules::EMPTY, &h);
                            }
                        }
                    }
                }
                states.fetch_add(local_states, Ordering::Relaxed);
                calls.fetch_add(local_states * 2, Ordering::Relaxed);
                in_check_states.fetch_add(local_check, Ordering::Relaxed);
                blocked.fetch_add(local_blocked, Ordering::Relaxed);
            });
        }
    });
    // conformance: the directly built boards equal what the FEN loader builds (king cache as from_fen sets it)
    let mut validated = 0u64;
    for (i, fen) in ["4k3/8/8/8/8/8/8/4K2R w - - 0 1", "k7/8/8/3q4/8/8/8/7K b - - 0 1", "8/8/8/3k4/3K4/8/8/8 w - - 0 1", "r3k3/8/8/8/8/8/8/R3K3 w - - 0 1"].iter().enumerate() {
        let pos = Pos::from_fen(fen).unwrap();
        let a = board_direct(&pos, &h);
        let b = BoardState::from_fen(fen).unwrap();
        let same = a.board == b.board && a.white_king_location == b.white_king_location && a.black_king_location == b.black_king_location && a.zobrist_key == b.zobrist_key;
        if !same {
            crate::report::machinery_error(&format!("directly built board differs from from_fen for {}", fen));
        }
        validated += 1;
        let _ = i;
    }
    rep.add("is_check_calls", calls.load(Ordering::Relaxed));
    rep.add("calls_where_rules_say_check", in_check_states.load(Ordering::Relaxed));
    rep.add("placements_with_two_further_pieces", blocked.load(Ordering::Relaxed));
    rep.add("observations_pawn_on_rank_1_or_8_mismatch_not_part_of_verdict", edge_rank_pawn_obs.load(Ordering::Relaxed));
    rep.sample(J::obj().set("placement", J::s("4k3/8/8/8/8/8/8/4K2R")).set("asked", J::s("is_check(White), is_check(Black) vs rules::attacked(king square, enemy)")));
    rep.sample(J::obj().set("placement", J::s("8/8/8/3k4/3K4/8/8/8 (adjacent kings: both in check by the rules of movement)")));
    rep.assume("rules::attacked (forward generation from each enemy piece) is right; boards are built directly with the king cache as the FEN loader sets it");
    // the same question on the boards the engine's own three producers build (their king cache, not ours):
    // S1 reach graph and the castling family through generator, text applier and FEN loader
    let r = crate::e1_posgraph::run(rep, crate::e1_posgraph::Focus::for_property("C06"));
    rep.add("producer_pass_states", r.states);
    rep.finish(
        states.load(Ordering::Relaxed) + r.states,
        calls.load(Ordering::Relaxed) + r.transitions,
        validated,
        true,
        &format!("all placements of both kings (any two distinct squares, adjacent included) with 0..={} further pieces of any of the 10 types on any squares, not filtered by legality; is_check asked for both colours; placements with a pawn on rank 1/8 are enumerated but reported as observations only; plus is_check for both colours on every board the generator, the text-move applier and the FEN loader build along the S1 reach graph and the castling family", extra),
    )
}

// ================================================================================================ C05 (sensitivity part)

/// "Changing any single component of a position changes the key": (1) the 781 addressable constants are
/// non-zero and pairwise distinct (a single change XORs one or two of them in); (2) on sample positions every
/// single mutation (each square to each other content, side, each right, each en-passant file) changes the
/// key the FEN loader computes, and that key equals the scratch key of the mutated position.
pub fn c05_sensitivity(rep: &Report) -> (u64, u64) {
    let h = ZobristHasher::create_zobrist_hasher();
    let mut constants: Vec<(String, u64)> = Vec::new();
    for &p in ALL12.iter() {
        for sq in 0..64u8 {
            constants.push((format!("{} on {}", rules::piece_char(p), rules::sq_name(sq)), h.get_val_for_piece(engine_piece(p), point_of_sq(sq))));
        }
    }
    constants.push(("black to move".into(), h.get_black_to_move_val()));
    use crate::move_generation::CastlingType;
    constants.push(("right K".into(), h.get_val_for_castling(CastlingType::WhiteKingSide)));
    constants.push(("right Q".into(), h.get_val_for_castling(CastlingType::WhiteQueenSide)));
    constants.push(("right k".into(), h.get_val_for_castling(CastlingType::BlackKingSide)));
    constants.push(("right q".into(), h.get_val_for_castling(CastlingType::BlackQueenSide)));
    for file in 0..8usize {
        constants.push((format!("en-passant file {}", (b'a' + file as u8) as char), h.get_val_for_en_passant(file + 2)));
    }
    let mut sorted: Vec<(u64, &String)> = constants.iter().map(|(n, v)| (*v, n)).collect();
    sorted.sort();
    for (v, n) in &sorted {
        if *v == 0 {
            rep.fail("C05", "zero-constant", format!("the hash constant for '{}' is zero: that component never changes the key", n), J::obj().set("kind", J::s("c05-constant")).set("component", J::s(n)));
        }
    }
    for w in sorted.windows(2) {
        if w[0].0 == w[1].0 {
            rep.fail("C05", "equal-constants", format!("the hash constants for '{}' and '{}' are equal: swapping one for the other leaves the key unchanged", w[0].1, w[1].1), J::obj().set("kind", J::s("c05-constant")).set("component", J::s(w[0].1)).set("other", J::s(w[1].1)));
        }
    }
    // (2) single mutations through the FEN loader
    let samples = [
        "rnbqkbnr/pppppppp/8/8/8/8/PPPPPPPP/RNBQKBNR w KQkq - 0 1",
        "r3k2r/p1ppqpb1/bn2pnp1/3PN3/1p2P3/2N2Q1p/PPPBBPPP/R3K2R w KQkq - 0 1",
        "4k3/8/8/3pP3/8/8/8/4K3 w - d6 0 1",
        "8/8/8/8/8/8/8/8 b - - 0 1",
        "r3k2r/8/8/8/3Pp3/8/8/R3K2R b KQkq d3 0 1",
    ];
    let mut mutations = 0u64;
    for f in samples {
        let base = Pos::from_fen(f).unwrap();
        let base_key = match BoardState::from_fen(&base.fen()) {
            Ok(b) => b.zobrist_key,
            Err(_) => continue,
        };
        let mut check = |m: &Pos, what: String| {
            mutations += 1;
            match catch_unwind(AssertUnwindSafe(|| BoardState::from_fen(&m.fen()).map(|b| b.zobrist_key).map_err(|e| e.to_string()))) {
                Ok(Ok(k)) => {
                    if k == base_key {
                        rep.fail("C05", "single-change-leaves-key-unchanged", format!("{}: {} leaves the key at {}", base.fen(), what, k), J::obj().set("kind", J::s("c05-mutation")).set("fen", J::s(&base.fen())).set("mutated_fen", J::s(&m.fen())));
                    }
                    if k != scratch_key(m, &h) {
                        rep.fail("C05", "fen-loader-key", format!("from_fen({}) key {} != scratch key", m.fen(), k), J::obj().set("kind", J::s("c05-mutation")).set("mutated_fen", J::s(&m.fen())));
                    }
                }
                _ => {}
            }
        };
        for sq in 0..64u8 {
            for content in std::iter::once(rules::EMPTY).chain(ALL12.iter().cloned()) {
                if content != base.b[sq as usize] {
                    let mut m = base;
                    m.b[sq as usize] = content;
                    check(&m, format!("{} becomes '{}'", rules::sq_name(sq), if content == 0 { '.' } else { rules::piece_char(content) }));
                }
            }
        }
        let mut m = base;
        m.stm ^= 1;
        check(&m, "side to move flipped".into());
        for bit in [rules::WK, rules::WQ, rules::BK, rules::BQ] {
            let mut m = base;
            m.rights ^= bit;
            check(&m, format!("castling right bit {} flipped", bit));
        }
        for file in 0..8i8 {
            let rank = if base.stm == rules::WHITE { 5 } else { 2 };
            let e = rules::sq_at(file, rank);
            if e != base.ep {
                let mut m = base;
                m.ep = e;
                check(&m, format!("en-passant target set to {}", rules::sq_name(e.unwrap())));
            }
        }
        if base.ep.is_some() {
            let mut m = base;
            m.ep = None;
            check(&m, "en-passant target removed".into());
        }
    }
    rep.add("hash_constants_checked_nonzero_and_distinct", constants.len() as u64);
    rep.add("single_component_mutations_through_the_fen_loader", mutations);
    (constants.len() as u64 + mutations, mutations)
}

// ================================================================================================ C14

/// set when directly built boards do not evaluate like loader-built ones (the engine keeps state this harness
/// does not know how to set): every board then comes from the engine's own FEN loader, on a reduced enumeration
static USE_LOADER: std::sync::atomic::AtomicBool = std::sync::atomic::AtomicBool::new(false);

/// placements on which the evaluation panicked (reported as violations of C14 by run_c14: no value, no identity)
static EVAL_PANICS: std::sync::Mutex<Vec<(String, String)>> = std::sync::Mutex::new(Vec::new());

fn eval_of(pos: &Pos, h: &ZobristHasher) -> i32 {
    let r = catch_unwind(AssertUnwindSafe(|| {
        if USE_LOADER.load(Ordering::Relaxed) {
            if let Ok(b) = BoardState::from_fen(&pos.fen()) {
                return get_evaluation(&b);
            }
        }
        get_evaluation(&board_direct(pos, h))
    }));
    match r {
        Ok(v) => v,
        Err(e) => {
            let mut g = EVAL_PANICS.lock().unwrap();
            if g.len() < 1000 {
                g.push((pos.fen(), panic_text(e)));
            }
            0
        }
    }
}

/// the evaluation of a ready board, a panic recorded like in eval_of
fn safe_eval(b: &BoardState, what: &str) -> i32 {
    match catch_unwind(AssertUnwindSafe(|| get_evaluation(b))) {
        Ok(v) => v,
        Err(e) => {
            let mut g = EVAL_PANICS.lock().unwrap();
            if g.len() < 1000 {
                g.push((what.to_string(), panic_text(e)));
            }
            0
        }
    }
}

const ALL12: [u8; 12] = [1, 2, 3, 4, 5, 6, 9, 10, 11, 12, 13, 14];

pub fn run_c14(rep: &Report) -> i32 {
    let h = ZobristHasher::create_zobrist_hasher();
    let mut n_pieces = 3; // both tiers
    // conformance of the direct board builder with the FEN loader, before anything is enumerated with it
    for f in ["rnbqkbnr/pppppppp/8/8/8/8/PPPPPPPP/RNBQKBNR w KQkq - 0 1", "r3k2r/p1ppqpb1/bn2pnp1/3PN3/1p2P3/2N2Q1p/PPPBBPPP/R3K2R w KQkq - 0 1", "QQQQQQQQ/Q7/8/8/8/8/7k/K7 b - - 0 1", "4k3/8/8/3pP3/8/8/8/4K3 w - d6 0 1"] {
        let a = safe_eval(&BoardState::from_fen(f).unwrap(), f);
        let b = safe_eval(&board_direct(&Pos::from_fen(f).unwrap(), &h), f);
        if a != b {
            USE_LOADER.store(true, Ordering::Relaxed);
        }
    }
    if USE_LOADER.load(Ordering::Relaxed) {
        n_pieces = 2;
        rep.note("directly built boards do not evaluate like FEN-loaded ones (the engine keeps state this harness cannot set): all boards are built by the engine's own loader instead, placements of <= 2 pieces only".to_string());
    }
    let evals = AtomicU64::new(0);
    let placements = AtomicU64::new(0);
    let nonzero = AtomicU64::new(0);
    let check_placement = |pos: &Pos| {
        let mut p = *pos;
        let mut local_nonzero = 0;
        for stm in [rules::WHITE, rules::BLACK] {
            p.stm = stm;
            let e = eval_of(&p, &h);
            let m = eval_of(&p.mirror(), &h);
            let mut o = p;
            o.stm = stm ^ 1;
            let n = eval_of(&o, &h);
            if e != 0 {
                local_nonzero += 1;
            }
            if e != m {
                rep.fail("C14", "mirror-asymmetry", format!("{} evaluates to {}, its colour-mirrored twin {} to {}", p.fen(), e, p.mirror().fen(), m), J::obj().set("kind", J::s("c14")).set("fen", J::s(&p.fen())).set("mirror_fen", J::s(&p.mirror().fen())).set("eval", J::i(e)).set("mirror_eval", J::i(m)));
            }
            if n != -e {
                rep.fail("C14", "side-to-move-not-negated", format!("{} evaluates to {}, with the other side to move to {}", p.fen(), e, n), J::obj().set("kind", J::s("c14")).set("fen", J::s(&p.fen())).set("eval", J::i(e)).set("other_side_eval", J::i(n)));
            }
        }
        evals.fetch_add(6, Ordering::Relaxed);
        placements.fetch_add(1, Ordering::Relaxed);
        nonzero.fetch_add(local_nonzero, Ordering::Relaxed);
    };
    // (1) all placements of 1..=n pieces of any types and colours (pawns on every rank, kings optional: "legal or not")
    let idx = AtomicUsize::new(0);
    std::thread::scope(|s| {
        for _ in 0..threads() {
            s.spawn(|| loop {
                let item = idx.fetch_add(1, Ordering::Relaxed);
                if item >= 12 * 64 {
                    break;
                }
                let (x, s1) = (ALL12[item / 64], (item % 64) as u8);
                let mut pos = Pos::empty();
                pos.b[s1 as usize] = x;
                check_placement(&pos);
                for (yi, &y) in ALL12.iter().enumerate() {
                    if yi < item / 64 {
                        continue;
                    }
                    let st = if y == x { s1 + 1 } else { 0 };
                    for s2 in st..64u8 {
                        if s2 == s1 {
                            continue;
                        }
                        pos.b[s2 as usize] = y;
                        check_placement(&pos);
                        if n_pieces >= 3 {
                            for (zi, &z) in ALL12.iter().enumerate() {
                                if zi < yi {
                                    continue;
                                }
                                let st3 = if z == y { s2 + 1 } else { 0 };
                                for s3 in st3..64u8 {
                                    if s3 == s1 || s3 == s2 {
                                        continue;
                                    }
                                    pos.b[s3 as usize] = z;
                                    check_placement(&pos);
                                    pos.b[s3 as usize] = rules::EMPTY;
                                }
                            }
                        }
                        pos.b[s2 as usize] = rules::EMPTY;
                    }
                }
            });
        }
    });

    // (1b) the same two identities on full boards: a term that looks at several squares at once (a whole rank,
    // a pawn structure, a piece pair) is invisible to placements of <= 3 pieces. Every root of the reach graph,
    // every perft-suite and search root, and the start position with every set of <= 2 men (not kings) removed
    // (both home ranks intact on one side while material is missing: every phase weight between the tables).
    let mut full_boards: Vec<Pos> = Vec::new();
    for (f, _, _) in crate::e1_posgraph::S1_ROOTS {
        full_boards.push(Pos::from_fen(f).unwrap());
    }
    for (f, _) in rules::PERFT_SUITE {
        full_boards.push(Pos::from_fen(f).unwrap());
    }
    for f in crate::e2_clockpoints::C07_ROOTS {
        if let Some(p) = crate::e4_session::pos_of_command(f) {
            full_boards.push(p);
        }
    }
    {
        let start = Pos::from_fen("rnbqkbnr/pppppppp/8/8/8/8/PPPPPPPP/RNBQKBNR w KQkq - 0 1").unwrap();
        let men: Vec<u8> = (0..64u8).filter(|&s| start.b[s as usize] != rules::EMPTY && rules::kind_of(start.b[s as usize]) != rules::K).collect();
        for (i, &a) in men.iter().enumerate() {
            let mut p = start;
            p.b[a as usize] = rules::EMPTY;
            full_boards.push(p);
            for &b in &men[i + 1..] {
                let mut q = p;
                q.b[b as usize] = rules::EMPTY;
                full_boards.push(q);
            }
        }
    }
    // over-full boards (33 and 34 men, and every empty square filled): the statement quantifies over placements
    // "legal or not", so a shortcut that counts on at most 32 men must show here. Start position plus every set of
    // <= 2 of the 32 empty squares filled with any of the 10 non-king piece types; plus all 32 filled with one type.
    let mut n_overfull = 0u64;
    {
        let start = Pos::from_fen("rnbqkbnr/pppppppp/8/8/8/8/PPPPPPPP/RNBQKBNR w KQkq - 0 1").unwrap();
        let empty: Vec<u8> = (0..64u8).filter(|&s| start.b[s as usize] == rules::EMPTY).collect();
        let mut types: Vec<u8> = Vec::new();
        for c in [rules::WHITE, rules::BLACK] {
            for k in [rules::P, rules::N, rules::B, rules::R, rules::Q] {
                types.push(rules::pc(c, k));
            }
        }
        for (i, &a) in empty.iter().enumerate() {
            for &ta in &types {
                let mut p = start;
                p.b[a as usize] = ta;
                full_boards.push(p);
                n_overfull += 1;
                if rep.quick() && (a as usize + ta as usize) % 4 != 0 {
                    continue;
                }
                for &b in &empty[i + 1..] {
                    for &tb in &types {
                        let mut q = p;
                        q.b[b as usize] = tb;
                        full_boards.push(q);
                        n_overfull += 1;
                    }
                }
            }
        }
        for &t in &types {
            let mut p = start;
            for &a in &empty {
                p.b[a as usize] = t;
            }
            full_boards.push(p);
            n_overfull += 1;
        }
    }
    rep.add("over_full_boards_33_to_64_men_with_mirror_and_negation_identity", n_overfull);
    let n_full = full_boards.len() as u64;
    for p in &mut full_boards {
        p.rights = 0;
        p.ep = None;
        check_placement(p);
    }
    rep.add("full_board_positions_with_mirror_and_negation_identity", n_full);

    // (2) material vectors on extremal squares: bound of |eval|
    // singleton values measured through the real evaluation (white piece alone; mg value = eval with phase
    // forced high is not observable directly, so extremal squares are chosen from the alone-on-board value
    // and from the value next to 24 phase points of material)
    let mut max_abs: i64 = 0;
    let mut arg_max = String::new();
    let mut vectors = 0u64;
    let kinds = [rules::P, rules::N, rules::B, rules::R, rules::Q];
    // order squares per kind by singleton evaluation (endgame-ish) and by evaluation in presence of heavy material (middlegame-ish)
    let mut order_eg: BTreeMap<u8, Vec<u8>> = BTreeMap::new();
    let mut order_mg: BTreeMap<u8, Vec<u8>> = BTreeMap::new();
    for &k in kinds.iter().chain([rules::K].iter()) {
        let mut v: Vec<(i32, u8)> = Vec::new();
        let mut w: Vec<(i32, u8)> = Vec::new();
        for sq in 0..64u8 {
            let mut p = Pos::empty();
            p.b[sq as usize] = rules::pc(rules::WHITE, k);
            v.push((eval_of(&p, &h), sq));
            // six black queens far away push the phase to 24; subtract their constant contribution by comparison
            let mut q = Pos::empty();
            let mut placed = 0;
            for s in (0..64u8).rev() {
                if s != sq && placed < 6 {
                    q.b[s as usize] = rules::pc(rules::BLACK, rules::Q);
                    placed += 1;
                }
            }
            let base = eval_of(&q, &h);
            q.b[sq as usize] = rules::pc(rules::WHITE, k);
            w.push((eval_of(&q, &h) - base, sq));
        }
        v.sort_by_key(|x| std::cmp::Reverse(x.0));
        w.sort_by_key(|x| std::cmp::Reverse(x.0));
        order_eg.insert(k, v.iter().map(|x| x.1).collect());
        order_mg.insert(k, w.iter().map(|x| x.1).collect());
    }
    for pawns in 0..=8usize {
        let promos = 8 - pawns;
        for base_n in 0..=2usize {
            for base_b in 0..=2usize {
                for base_r in 0..=2usize {
                    for base_q in 0..=1usize {
                        // distribute promotions
                        for pn in 0..=promos {
                            for pb in 0..=(promos - pn) {
                                for pr in 0..=(promos - pn - pb) {
                                    for pq in 0..=(promos - pn - pb - pr) {
                                        let counts = [pawns, base_n + pn, base_b + pb, base_r + pr, base_q + pq];
                                        if USE_LOADER.load(Ordering::Relaxed) && (pn + 2 * pb + 3 * pr + 5 * pq + base_n + base_b) % 7 != 0 {
                                            continue;
                                        }
                                        for (oi, order) in [&order_eg, &order_mg].iter().enumerate() {
                                            for worst in [false, true] {
                                                let mut pos = Pos::empty();
                                                let mut used = [false; 64];
                                                // heaviest pieces first so that they get their extremal squares
                                                for (ki, &k) in kinds.iter().enumerate().rev() {
                                                    let ord = &order[&k];
                                                    let mut placed = 0;
                                                    let iter: Box<dyn Iterator<Item = &u8>> = if worst { Box::new(ord.iter().rev()) } else { Box::new(ord.iter()) };
                                                    for &sq in iter {
                                                        if placed == counts[ki] {
                                                            break;
                                                        }
                                                        if !used[sq as usize] {
                                                            used[sq as usize] = true;
                                                            pos.b[sq as usize] = rules::pc(rules::WHITE, k);
                                                            placed += 1;
                                                        }
                                                    }
                                                }
                                                // white king on its best free square, black king on its worst one
                                                let kord = &order[&rules::K];
                                                if let Some(&ks) = kord.iter().find(|&&s| !used[s as usize]) {
                                                    used[ks as usize] = true;
                                                    pos.b[ks as usize] = rules::pc(rules::WHITE, rules::K);
                                                }
                                                if let Some(ks) = kord.iter().rev().map(|&s| rules::sq_at(rules::file_of(s), 7 - rules::rank_of(s)).unwrap()).find(|&s| !used[s as usize]) {
                                                    pos.b[ks as usize] = rules::pc(rules::BLACK, rules::K);
                                                }
                                                // the identities must hold at the extremes too (a clamp or saturation would break them there)
                                                check_placement(&pos);
                                                for variant in 0..2 {
                                                    let p = if variant == 0 { pos } else { pos.mirror() };
                                                    for stm in [rules::WHITE, rules::BLACK] {
                                                        let mut q = p;
                                                        q.stm = stm;
                                                        let e = eval_of(&q, &h) as i64;
                                                        vectors += 1;
                                                        if e.abs() > max_abs {
                                                            max_abs = e.abs();
                                                            arg_max = q.fen();
                                                        }
                                                    }
                                                }
                                                let _ = oi;
                                            }
                                        }
                                    }
                                }
                            }
                        }
                    }
                }
            }
        }
    }
    // both sides at full strength on extremal squares cannot exceed one side alone (terms subtract), so the
    // one-sided maximum is the bound. The mate window starts at 100000 - 15.
    let mate_floor: i64 = 100000 - 15;
    if max_abs * 2 >= mate_floor {
        rep.fail("C14", "magnitude-near-mate-range", format!("|eval| reaches {} at {} (mate scores start at {})", max_abs, arg_max, mate_floor), J::obj().set("kind", J::s("c14")).set("fen", J::s(&arg_max)).set("abs_eval", J::Int(max_abs as i128)));
    }
    rep.set_extra("max_abs_evaluation", J::obj().set("value", J::Int(max_abs as i128)).set("position", J::s(&arg_max)).set("mate_scores_start_at", J::Int(mate_floor as i128)).set("material_vectors_evaluated", J::Int(vectors as i128)));

    // (3) purity: the value depends on nothing but placement and side to move
    let mut purity = 0u64;
    let sample_fens = [
        "rnbqkbnr/pppppppp/8/8/8/8/PPPPPPPP/RNBQKBNR w KQkq - 0 1",
        "r3k2r/p1ppqpb1/bn2pnp1/3PN3/1p2P3/2N2Q1p/PPPBBPPP/R3K2R w KQkq - 0 1",
        "8/2p5/3p4/KP5r/1R3p1k/8/4P1P1/8 w - - 0 1",
        "4k3/8/8/3pP3/8/8/8/4K3 w - d6 0 1",
        "QQQQQQQQ/Q7/8/8/8/8/7k/K7 b - - 0 1",
    ];
    let mut purity_positions: Vec<Pos> = sample_fens.iter().map(|f| Pos::from_fen(f).unwrap()).collect();
    for a in (0..64u8).step_by(3) {
        for &x in &ALL12 {
            let mut p = Pos::empty();
            p.b[a as usize] = x;
            p.b[((a as usize * 7 + 13) % 64) as usize] = ALL12[(a as usize + x as usize) % 12];
            purity_positions.push(p);
        }
    }
    for p0 in &purity_positions {
        let mut seen_white: Option<i32> = None;
        for stm in [rules::WHITE, rules::BLACK] {
            let mut p = *p0;
            p.stm = stm;
            p.rights = 0;
            p.ep = None;
            let reference = eval_of(&p, &h);
            // evaluated again after boards with the other side's key have gone by (the search builds such
            // boards for a null move): the value still negates with the side to move
            match seen_white {
                None => seen_white = Some(reference),
                Some(w) => {
                    if reference != -w {
                        rep.fail("C14", "side-to-move-not-negated/after-null-move-style-boards", format!("{}: white to move evaluates to {}, black to move to {} once boards carrying the other side's key have been evaluated", p.fen(), w, reference), J::obj().set("kind", J::s("c14")).set("fen", J::s(&p.fen())).set("eval", J::i(reference)).set("other_side_eval", J::i(w)));
                    }
                }
            }
            for rights in 0..16u8 {
                for ep in [None, Some(16u8), Some(19), Some(23), Some(40), Some(44), Some(47)] {
                    let mut q = p;
                    q.rights = rights;
                    q.ep = ep;
                    let mut b = if USE_LOADER.load(Ordering::Relaxed) { BoardState::from_fen(&q.fen()).unwrap_or_else(|_| board_direct(&q, &h)) } else { board_direct(&q, &h) };
                    for variant in 0..4 {
                        match variant {
                            1 => {
                                b.last_move = Some((Point(8, 6), Point(6, 6)));
                                b.order_heuristic = 9_999_999;
                            }
                            2 => {
                                // the board the search builds for a null move: side flipped, key left as it was
                                b.pawn_promotion = Some(Piece { color: PieceColor::Black, kind: PieceKind::Queen });
                                b.zobrist_key ^= h.get_black_to_move_val();
                            }
                            3 => {
                                b.last_move = Some((Point(2, 2), Point(9, 9)));
                                b.order_heuristic = -999_999_999;
                            }
                            _ => {}
                        }
                        let e = safe_eval(&b, &q.fen());
                        purity += 1;
                        if e != reference {
                            rep.fail("C14", "depends-on-non-placement-field", format!("{}: value {} changes to {} with rights {:04b}, ep {:?}, hidden-field variant {}", p.fen(), reference, e, rights, ep, variant), J::obj().set("kind", J::s("c14")).set("fen", J::s(&q.fen())).set("variant", J::i(variant)));
                        }
                    }
                }
            }
        }
    }
    rep.add("purity_evaluations", purity);
    rep.add("placements_with_nonzero_value", nonzero.load(Ordering::Relaxed));
    rep.sample(J::obj().set("placement", J::s("one white knight on a1, one black pawn on h8 (pawns on every rank are enumerated)")).set("checked", J::s("eval(P) == eval(mirror(P)); eval(P, other side) == -eval(P)")));
    rep.sample(J::obj().set("extremal_position", J::s(&arg_max)).set("abs_eval", J::Int(max_abs as i128)));
    // conformance of the direct board builder with the FEN loader on the sample positions
    let mut validated = 0;
    for f in sample_fens {
        let a = safe_eval(&BoardState::from_fen(f).unwrap(), f);
        let b = eval_of(&Pos::from_fen(f).unwrap(), &h);
        if a != b && !USE_LOADER.load(Ordering::Relaxed) {
            crate::report::machinery_error(&format!("evaluation of directly built board differs from FEN-loaded board for {}", f));
        }
        validated += 1;
    }
    let total = placements.load(Ordering::Relaxed);
    // "depends on nothing but placement and side to move" also means: not on HOW the position was reached.
    // Every board the generator, the text applier and whole position commands build along S1 and the
    // castling/promotion families must evaluate like the same position loaded from FEN.
    let r = crate::e1_posgraph::run(rep, crate::e1_posgraph::Focus::for_property("C14"));
    rep.add("producer_pass_states", r.states);
    {
        let g = EVAL_PANICS.lock().unwrap();
        for (fen, msg) in g.iter().take(8) {
            rep.fail("C14", "evaluation-panics", format!("{}: the evaluation panics ({}); {} placements in all", fen, msg, g.len()), J::obj().set("kind", J::s("c14")).set("fen", J::s(fen)));
        }
    }
    rep.finish(
        total + vectors + purity + r.states,
        evals.load(Ordering::Relaxed) + vectors + purity + r.transitions,
        validated,
        true,
        &format!("(1) all placements of 1..={} pieces of any of the 12 types on any squares (pawns on every rank), both sides to move: mirror and negation identities; (2) every material vector (pawns 0..8, promotions distributed over N,B,R,Q, base pieces 0..2/0..1) on best and worst squares for endgame and middlegame weights, both colours, both sides to move: magnitude bound; (3) rights x ep x hidden fields toggled on {} placements: purity; (4) every board built by the move generator, the text applier and position commands along the S1 reach graph and the castling/promotion families evaluates like the same position loaded from FEN", n_pieces, purity_positions.len()),
    )
}

// ================================================================================================ C09

fn exact_reference(clock: i128, inc: i128, mtg: Option<u32>) -> (f64, u128) {
    // the policy of the statement, in f64 exactly as specified: used for the "not below" side only
    let c = clock as f64;
    let base = c - 100.0;
    let m = mtg.unwrap_or(30) as f64;
    if base <= 0.0 {
        (base, if (inc as f64) > 0.0 { 1 } else { 0 })
    } else {
        (base, (base * 0.8 / m).round() as u128)
    }
}

/// The deadline test itself (shared by both threads): out_of_time(start, t) must say whether at least t ms have
/// passed since `start`. Asked on the real clock with back-dated start stamps, so that hours of elapsed time
/// cost nothing: every elapsed time of a grid (0 .. the machine's uptime; around 2^32 us, one second, one hour)
/// against slices just below it (expired), well above it (not expired), zero and astronomically large.
pub fn deadline_predicate(rep: &Report) -> u64 {
    use std::time::{Duration, Instant};
    let elapsed_ms: [u64; 24] = [0, 1, 10, 500, 999, 1000, 1001, 1999, 2000, 2001, 59_999, 60_000, 61_000, 3_599_000, 3_600_000, 4_294_000, 4_294_967, 4_294_968, 4_296_000, 4_300_000, 8_589_935, 10_000_000, 36_000_000, 86_400_000];
    let mut asked = 0u64;
    let mut skipped = Vec::new();
    for &e in &elapsed_ms {
        let start = match Instant::now().checked_sub(Duration::from_millis(e)) {
            Some(s) => s,
            None => {
                skipped.push(e);
                continue; // the monotonic clock of this machine does not reach back that far
            }
        };
        let e = e as u128;
        let mut cases: Vec<(u128, bool)> = vec![(e + 2_000, false), (e + 60_000, false), (e * 2 + 5_000, false), (1u128 << 64, false), ((1u128 << 64) + e, false), (u128::MAX, false), (u128::MAX - 49, false), (1u128 << 32, e >= (1u128 << 32)), (1u128 << 31, e >= (1u128 << 31))];
        if e >= 1 {
            cases.push((e, true));
            cases.push((e / 2, true));
            cases.push((1, true));
        }
        if e >= 100 {
            cases.push((e - 50, true));
        }
        for (t, want) in cases {
            // (1<<32 and 1<<31 ms are only decided when the elapsed time is clearly on one side)
            if (t == 1u128 << 32 || t == 1u128 << 31) && (e as i128 - t as i128).abs() < 5_000 {
                continue;
            }
            asked += 1;
            let got = match catch_unwind(AssertUnwindSafe(|| crate::utils::out_of_time(start, t))) {
                Ok(g) => g,
                Err(p) => {
                    rep.fail("C08", "deadline-test-panics", format!("out_of_time(start = now - {} ms, {} ms) panicked: {}", e, t, panic_text(p)), J::obj().set("kind", J::s("deadline-predicate")).set("elapsed_ms", J::s(&e.to_string())).set("slice_ms", J::s(&t.to_string())));
                    continue;
                }
            };
            if got != want {
                let (prop, sig) = if want { ("C08", "deadline-not-seen-after-it-has-passed") } else { ("C09", "deadline-seen-before-it-has-passed") };
                rep.fail(prop, sig, format!("{} ms after the start stamp, out_of_time(start, {} ms) says {}", e, t, got), J::obj().set("kind", J::s("deadline-predicate")).set("elapsed_ms", J::s(&e.to_string())).set("slice_ms", J::s(&t.to_string())));
            }
        }
    }
    if !skipped.is_empty() {
        rep.note(format!("deadline predicate: elapsed times {:?} ms are beyond this machine's monotonic clock and were skipped", skipped));
    }
    rep.add("deadline_predicate_questions", asked);
    asked
}

pub fn run_c09(rep: &Report) -> i32 {
    deadline_predicate(rep);
    let big: [i128; 23] = [
        -(1i128 << 100),
        -1_000_000,
        -1,
        0,
        1,
        50,
        99,
        100,
        101,
        102,
        150,
        1000,
        12345,
        300000,
        1_000_000_000,
        (1i128 << 53) - 1,
        (1i128 << 53) + 1,
        1i128 << 63,
        (1i128 << 64) + 12345,
        1i128 << 100,
        i128::MAX,
        i128::MIN,
        7,
    ];
    let small: [i128; 8] = [-1_000_000, -1, 0, 1, 100, 101, 10_000, i128::MAX];
    let mtgs: [Option<u32>; 8] = [None, Some(1), Some(2), Some(29), Some(30), Some(31), Some(40), Some(u32::MAX)];
    let mut states = 0u64;
    let mut transitions = 0u64;
    let mut slices_nonzero = 0u64;
    let quick = rep.quick();
    let opp: &[i128] = if quick { &small } else { &big };
    for &clock in &big {
        for &inc in &big {
            for &mtg in &mtgs {
                for white in [true, false] {
                    let color = if white { PieceColor::White } else { PieceColor::Black };
                    let mut first: Option<u128> = None;
                    for &oclock in opp {
                        for &oinc in opp {
                            let gt = if white { GameTime { wtime: clock, btime: oclock, winc: inc, binc: oinc, movestogo: mtg } } else { GameTime { wtime: oclock, btime: clock, winc: oinc, binc: inc, movestogo: mtg } };
                            let slice = match catch_unwind(AssertUnwindSafe(|| gt.calculate_time_slice(color))) {
                                Ok(s) => s,
                                Err(e) => {
                                    rep.fail("C09", "time-slice-panic", format!("clock {} inc {} mtg {:?} {}: {}", clock, inc, mtg, if white { "white" } else { "black" }, panic_text(e)), c09_case(clock, inc, oclock, oinc, mtg, white));
                                    continue;
                                }
                            };
                            transitions += 1;
                            // (1) independence of the opponent's values
                            match first {
                                None => first = Some(slice),
                                Some(f) => {
                                    if f != slice {
                                        rep.fail("C09", "depends-on-opponent-clock", format!("mover clock {} inc {} mtg {:?}: slice {} with one opponent clock, {} with opponent clock {} inc {}", clock, inc, mtg, f, slice, oclock, oinc), c09_case(clock, inc, oclock, oinc, mtg, white));
                                    }
                                }
                            }
                        }
                    }
                    states += 1;
                    let slice = match first {
                        Some(s) => s,
                        None => continue,
                    };
                    if slice > 0 {
                        slices_nonzero += 1;
                    }
                    // (2) never more than the remaining clock
                    let clock_pos: u128 = if clock > 0 { clock as u128 } else { 0 };
                    if slice > clock_pos {
                        let sig = if clock <= 100 { "slice-exceeds-clock/clock-within-safety-margin-with-increment" } else { "slice-exceeds-clock" };
                        rep.fail("C09", sig, format!("clock {} ms, increment {} ms, movestogo {:?}, {} to move: planned slice {} ms exceeds the remaining clock", clock, inc, mtg, if white { "white" } else { "black" }, slice), c09_case(clock, inc, 0, 0, mtg, white));
                    }
                    // (3) with more than the margin left: at most 80% of (clock - margin) / movestogo
                    if clock > 100 {
                        let m = mtg.unwrap_or(30) as u128;
                        let base = (clock - 100) as u128;
                        // exact bound: round(0.8*base/m) <= floor((8*base + 5*m) / (10*m)), computed without overflow;
                        // relative float tolerance above 2^52 where f64 cannot represent the input
                        let d = 10 * m;
                        let (q, r) = (base / d, base % d);
                        let bound = 8 * q + (8 * r + 5 * m) / d;
                        let tol = if clock >= (1i128 << 52) { base / (1u128 << 49) + 1 } else { 0 };
                        if slice > bound.saturating_add(tol) {
                            rep.fail("C09", "slice-above-80-percent-rule", format!("clock {} mtg {:?}: slice {} > bound {}", clock, mtg, slice, bound), c09_case(clock, inc, 0, 0, mtg, white));
                        }
                        // not below the plan either (a lost factor or swapped constant): >= plan - 1 - tol
                        let low = 8 * q + (8 * r).saturating_sub(5 * m) / d;
                        if slice.saturating_add(1).saturating_add(tol) < low {
                            rep.fail("C09", "slice-far-below-plan", format!("clock {} mtg {:?}: slice {} < plan {}", clock, mtg, slice, low), c09_case(clock, inc, 0, 0, mtg, white));
                        }
                    } else if inc <= 0 && slice != 0 {
                        // (4) no usable clock and no increment: zero
                        rep.fail("C09", "nonzero-without-clock-and-increment", format!("clock {} inc {}: slice {}", clock, inc, slice), c09_case(clock, inc, 0, 0, mtg, white));
                    }
                }
            }
        }
    }
    // colour symmetry: swapping the colours' inputs and the mover gives the same result
    for &clock in &big {
        for &inc in &small {
            for &mtg in &mtgs {
                let w = catch_unwind(AssertUnwindSafe(|| GameTime { wtime: clock, btime: 777, winc: inc, binc: 3, movestogo: mtg }.calculate_time_slice(PieceColor::White)));
                let b = catch_unwind(AssertUnwindSafe(|| GameTime { wtime: 777, btime: clock, winc: 3, binc: inc, movestogo: mtg }.calculate_time_slice(PieceColor::Black)));
                transitions += 2;
                let (w, b) = match (w, b) {
                    (Ok(w), Ok(b)) => (w, b),
                    _ => {
                        rep.fail("C09", "time-slice-panic", format!("clock {} inc {} mtg {:?}: the time policy panics", clock, inc, mtg), c09_case(clock, inc, 777, 3, mtg, true));
                        continue;
                    }
                };
                if w != b {
                    rep.fail("C09", "colour-asymmetry", format!("clock {} inc {} mtg {:?}: white plans {}, black plans {}", clock, inc, mtg, w, b), c09_case(clock, inc, 777, 3, mtg, true));
                }
            }
        }
    }
    // parser: every ordering of the five keys (120), with unknown tokens interleaved, must give the same GameTime
    let keys = [("wtime", "12345"), ("btime", "-7"), ("winc", "250"), ("binc", "0"), ("movestogo", "17")];
    let mut perm: Vec<usize> = (0..5).collect();
    let mut perms: Vec<Vec<usize>> = Vec::new();
    permutations(&mut perm, 0, &mut perms);
    let fillers: [&[&str]; 5] = [&[], &["infinite"], &["depth", "5"], &["ponder", "searchmoves", "e2e4"], &["movetime", "100"]];
    let mut parsed = 0u64;
    for p in &perms {
        for (fi, filler) in fillers.iter().enumerate() {
            for omit in 0..6usize {
                let mut tokens: Vec<&str> = vec!["go"];
                for (pos_i, &k) in p.iter().enumerate() {
                    if k == omit {
                        continue;
                    }
                    if pos_i == fi % 5 {
                        tokens.extend_from_slice(filler);
                    }
                    tokens.push(keys[k].0);
                    tokens.push(keys[k].1);
                }
                tokens.extend_from_slice(filler);
                let r = catch_unwind(AssertUnwindSafe(|| crate::uci::verif_parse_go_command(&tokens)));
                parsed += 1;
                match r {
                    Err(e) => rep.fail("C09", "go-parser-panic", format!("'{}': {}", tokens.join(" "), panic_text(e)), J::obj().set("kind", J::s("c09-parse")).set("command", J::s(&tokens.join(" ")))),
                    Ok(gt) => {
                        let want = |k: usize, v: i128| if k == omit { 0 } else { v };
                        let ok = gt.wtime == want(0, 12345) && gt.btime == want(1, -7) && gt.winc == want(2, 250) && gt.binc == want(3, 0) && gt.movestogo == if omit == 4 { None } else { Some(17) };
                        if !ok {
                            rep.fail("C09", "go-parser-order-dependent", format!("'{}' parsed as wtime {} btime {} winc {} binc {} movestogo {:?}", tokens.join(" "), gt.wtime, gt.btime, gt.winc, gt.binc, gt.movestogo), J::obj().set("kind", J::s("c09-parse")).set("command", J::s(&tokens.join(" "))));
                        }
                    }
                }
            }
        }
    }
    transitions += parsed;
    rep.add("grid_points_mover", states);
    rep.add("grid_points_with_nonzero_slice", slices_nonzero);
    rep.add("go_commands_parsed", parsed);
    let slice_of = |gt: GameTime| -> J { match catch_unwind(AssertUnwindSafe(|| gt.calculate_time_slice(PieceColor::White))) { Ok(s) => J::s(&s.to_string()), Err(_) => J::s("panic") } };
    rep.sample(J::obj().set("go", J::s("go wtime 12345 btime 300000 movestogo 40")).set("slice_ms", slice_of(GameTime { wtime: 12345, btime: 300000, winc: 0, binc: 0, movestogo: Some(40) })));
    rep.sample(J::obj().set("go", J::s("go wtime 50 winc 10000")).set("slice_ms", slice_of(GameTime { wtime: 50, btime: 0, winc: 10000, binc: 0, movestogo: None })));
    rep.assume("the boundary grid (branch conditions 0/100/101, f64 representability edges 2^53, 2^63, 2^64, i128 extremes) represents the unbounded numeric domain");
    rep.assume("wall-clock equality of the delay with the plan is decided in virtual time by the scheduler engine (C03/C08 evidence) and smoke-tested only");
    rep.finish(states, transitions, parsed, true, "full product of the boundary grid for the mover's clock and increment x movestogo x colour, each under every opponent clock/increment of the opponent grid; all 120 orderings of the five go keys x 5 unknown-token fillers x 6 omissions")
}

fn c09_case(clock: i128, inc: i128, oclock: i128, oinc: i128, mtg: Option<u32>, white: bool) -> J {
    J::obj()
        .set("kind", J::s("c09"))
        .set("mover_clock_ms", J::s(&clock.to_string()))
        .set("mover_increment_ms", J::s(&inc.to_string()))
        .set("opponent_clock_ms", J::s(&oclock.to_string()))
        .set("opponent_increment_ms", J::s(&oinc.to_string()))
        .set("movestogo", J::s(&format!("{:?}", mtg)))
        .set("mover", J::s(if white { "white" } else { "black" }))
}

fn permutations(v: &mut Vec<usize>, k: usize, out: &mut Vec<Vec<usize>>) {
    if k == v.len() {
        out.push(v.clone());
        return;
    }
    for i in k..v.len() {
        v.swap(k, i);
        permutations(v, k + 1, out);
        v.swap(k, i);
    }
}

// ================================================================================================ C15

/// one representative per character class the parser distinguishes
const ALPHABET: [&str; 20] = ["0", "1", "8", "9", "K", "k", "P", "p", "x", "a", "e", "h", "i", "/", " ", "-", "w", "b", "\r", "é"];
// further classes that `char` predicates (is_numeric, is_alphabetic, is_whitespace, to_digit) tell apart
const ALPHABET_EXTRA: [&str; 11] = ["\n", "\0", "–", "𝄞", "3", "٨", "²", "８", "Ä", "\u{a0}", "\u{2003}"];

fn strings_up_to(alphabet: &[&str], max_len: usize) -> Vec<String> {
    let mut out = vec![String::new()];
    let mut level = vec![String::new()];
    for _ in 0..max_len {
        let mut next = Vec::with_capacity(level.len() * alphabet.len());
        for s in &level {
            for a in alphabet {
                let mut t = s.clone();
                t.push_str(a);
                next.push(t);
            }
        }
        out.extend(next.iter().cloned());
        level = next;
    }
    out
}

pub struct FenSweep {
    pub rejected: Vec<String>, // inputs that made from_fen return Err or panic (for the CLI run)
}

pub fn run_c15(rep: &Report, cli: Option<&dyn Fn(&[String], &Report) -> u64>) -> i32 {
    let quick = rep.quick();
    let l = if quick { 3 } else { 4 };
    let mut alphabet: Vec<&str> = ALPHABET.to_vec();
    alphabet.extend_from_slice(&ALPHABET_EXTRA);
    let strings = strings_up_to(&alphabet, l);
    let short = strings_up_to(&alphabet, if quick { 2 } else { 3 });
    let valid = ["4k3", "8", "8", "3pP3", "8", "8", "8", "4K3"];
    let base_fields = ["4k3/8/8/3pP3/8/8/8/4K3", "w", "KQkq", "d6", "0", "1"];
    let calls = AtomicU64::new(0);
    let accepted = AtomicU64::new(0);
    let rejected_n = AtomicU64::new(0);
    let rejected: std::sync::Mutex<Vec<String>> = std::sync::Mutex::new(Vec::new());
    let try_one = |input: &str, what: &str| {
        calls.fetch_add(1, Ordering::Relaxed);
        let owned = input.to_string();
        let r = catch_unwind(AssertUnwindSafe(|| BoardState::from_fen(&owned).map(|b| b.zobrist_key).map_err(|e| e.to_string())));
        match r {
            Ok(Ok(_)) => {
                accepted.fetch_add(1, Ordering::Relaxed);
            }
            Ok(Err(_)) => {
                let n = rejected_n.fetch_add(1, Ordering::Relaxed);
                if n % 97 == 0 {
                    let mut rj = rejected.lock().unwrap();
                    if rj.len() < 4000 {
                        rj.push(owned);
                    }
                }
            }
            Err(e) => {
                let class = classify_panic_input(input, what);
                rep.fail("C15", &format!("from_fen-panic/{}", class), format!("from_fen({:?}) panicked: {} [{}]", input, panic_text(e), what), J::obj().set("kind", J::s("c15")).set("input", J::s(input)).set("generated_as", J::s(what)));
                let mut rj = rejected.lock().unwrap();
                if rj.len() < 4000 {
                    rj.push(input.to_string());
                }
            }
        }
    };
    // work list of generators, run in parallel by index
    let n_jobs = 1 + 6 + 2 + 1;
    let idx = AtomicUsize::new(0);
    std::thread::scope(|s| {
        for _ in 0..n_jobs.min(threads()) {
            s.spawn(|| loop {
                let job = idx.fetch_add(1, Ordering::Relaxed);
                if job >= n_jobs {
                    break;
                }
                match job {
                    0 => {
                        // (i) every string as the whole input
                        for st in &strings {
                            try_one(st, "whole input");
                        }
                    }
                    1..=6 => {
                        // (ii) every string substituted for one field of an otherwise valid FEN
                        let f = job - 1;
                        for st in &strings {
                            let mut fields: Vec<String> = base_fields.iter().map(|x| x.to_string()).collect();
                            fields[f] = st.clone();
                            try_one(&fields.join(" "), &format!("field {} replaced", f));
                        }
                    }
                    7 => {
                        // placement rows over the characters that count squares (digits, piece letters): longer strings
                        let row_alphabet = ["1", "7", "8", "9", "K", "p"];
                        for st in strings_up_to(&row_alphabet, if quick { 5 } else { 6 }) {
                            for row in [0usize, 3, 7] {
                                let mut rows: Vec<String> = valid.iter().map(|x| x.to_string()).collect();
                                rows[row] = st.clone();
                                try_one(&format!("{} w - - 0 1", rows.join("/")), &format!("placement row {} replaced", row));
                            }
                        }
                        // placement: every string as one row, at each of the 8 row positions
                        for st in &strings {
                            for row in 0..8 {
                                let mut rows: Vec<String> = valid.iter().map(|x| x.to_string()).collect();
                                rows[row] = st.clone();
                                try_one(&format!("{} w - - 0 1", rows.join("/")), &format!("placement row {} replaced", row));
                            }
                        }
                    }
                    8 => {
                        // placement with 0..=9 rows, last row a short string
                        for n in 0..=9usize {
                            for st in &short {
                                let mut rows: Vec<String> = (0..n).map(|i| valid[i % 8].to_string()).collect();
                                rows.push(st.clone());
                                try_one(&format!("{} b KQkq - 3 9", rows.join("/")), &format!("{} valid rows plus a row", n));
                            }
                        }
                    }
                    _ => {
                        // (iii) 0..=8 fields, doubled spaces, trailing CR/LF
                        let f = ["4k3/8/8/8/8/8/8/4K3", "w", "-", "-", "0", "1", "extra", "more"];
                        for n in 0..=8usize {
                            for sep in [" ", "  ", "\t"] {
                                for tail in ["", "\n", "\r\n", " ", "\r", "\n\n"] {
                                    let st = format!("{}{}", f[..n].join(sep), tail);
                                    try_one(&st, "field count / separators / line ends");
                                }
                            }
                        }
                    }
                }
            });
        }
    });

    // faithfulness: the oracle's FEN of every state of the small-scope families x counter values
    let h = ZobristHasher::create_zobrist_hasher();
    let counters: [u32; 11] = [0, 1, 49, 50, 99, 100, 255, 256, 300, 1000, 65535];
    let faithful = AtomicU64::new(0);
    let check_faithful = |pos: &Pos, half: u32, full: u32| {
        let fen = pos.fen_with_counters(half, full);
        faithful.fetch_add(1, Ordering::Relaxed);
        match catch_unwind(AssertUnwindSafe(|| BoardState::from_fen(&fen).map_err(|e| e.to_string()))) {
            Err(e) => rep.fail("C15", "from_fen-panic/well-formed", format!("from_fen({:?}) panicked: {}", fen, panic_text(e)), J::obj().set("kind", J::s("c15")).set("input", J::s(&fen))),
            Ok(Err(e)) => {
                let sig = if half > 255 || full > 255 { "rejects-well-formed/counter-above-255" } else { "rejects-well-formed" };
                rep.fail("C15", sig, format!("from_fen({:?}) = Err({})", fen, e), J::obj().set("kind", J::s("c15")).set("input", J::s(&fen)));
            }
            Ok(Ok(b)) => {
                if let Some(d) = diff_board(&b, pos) {
                    rep.fail("C15", "loaded-position-differs", format!("from_fen({:?}): {}", fen, d), J::obj().set("kind", J::s("c15")).set("input", J::s(&fen)));
                }
                if b.last_move.is_some() || b.pawn_promotion.is_some() || b.zobrist_key != scratch_key(pos, &h) {
                    rep.fail("C15", "loaded-hidden-fields", format!("from_fen({:?}): descriptor not empty or key differs from scratch key", fen), J::obj().set("kind", J::s("c15")).set("input", J::s(&fen)));
                }
            }
        }
    };
    let idx = AtomicUsize::new(0);
    std::thread::scope(|s| {
        for _ in 0..threads() {
            s.spawn(|| loop {
                let item = idx.fetch_add(1, Ordering::Relaxed);
                let positions: Vec<Pos> = if item < 64 {
                    let v = crate::e1_posgraph::family_kkx(item as u8..item as u8 + 1);
                    // all counters on a stride of the family, counters (0,1) on all of it
                    v
                } else if item < 64 + 128 {
                    let i = item - 64;
                    crate::e1_posgraph::family_castle(if i < 64 { rules::WHITE } else { rules::BLACK }, 1, &[], (i % 64) as u8)
                } else if item < 64 + 128 + 16 {
                    let i = item - 192;
                    crate::e1_posgraph::family_ep(if i < 8 { rules::WHITE } else { rules::BLACK }, (i % 8) as i8)
                } else if item < 64 + 128 + 16 + 16 {
                    let i = item - 208;
                    crate::e1_posgraph::family_promo(if i < 8 { rules::WHITE } else { rules::BLACK }, true, (i % 8) as i8)
                } else {
                    break;
                };
                let stride = if quick { 101 } else { 5 };
                for (n, p) in positions.iter().enumerate() {
                    check_faithful(p, 0, 1);
                    if n % stride == 0 {
                        for &a in &counters {
                            for &b in &counters {
                                check_faithful(p, a, b);
                            }
                        }
                    }
                }
            });
        }
    });

    // long well-formed FENs: fragmented placements with all rights, an en-passant target and large counters
    let long_positions = [
        "r1b1k1nr/p1p1p1p1/1p1p1p1p/1n1q2b1/2B1Q1N1/1P1P1P1P/P1P1P1P1/R1B1K2R w KQkq - 0 1",
        "r1b1k2r/p1p1p1p1/1p1p1p1p/1n1q2b1/2B1QPN1/1P1P3P/P1P1P1P1/R1B1K2R b KQkq f3 0 1",
        "r3k2r/p1ppqpb1/bn2pnp1/3PN3/1p2P3/2N2Q1p/PPPBBPPP/R3K2R w KQkq - 0 1",
        "rnbqkbnr/pppppppp/8/8/8/8/PPPPPPPP/RNBQKBNR w KQkq - 0 1",
    ];
    let big: [u64; 9] = [0, 1, 255, 256, 65535, 65536, 100_000, 4_000_000_000, 4_294_967_295];
    for f in long_positions {
        let pos = Pos::from_fen(f).unwrap();
        if !pos.is_legal_position() {
            crate::report::machinery_error(&format!("long-FEN sample {} is not a legal position", f));
        }
        for &a in &big {
            for &b in &big {
                let fen = {
                    let base = pos.fen();
                    let cut = base.rfind(" 0 1").unwrap();
                    format!("{} {} {}", &base[..cut], a, b)
                };
                faithful.fetch_add(1, Ordering::Relaxed);
                match catch_unwind(AssertUnwindSafe(|| BoardState::from_fen(&fen).map_err(|e| e.to_string()))) {
                    Err(e) => rep.fail("C15", "from_fen-panic/well-formed", format!("from_fen({:?}) panicked: {}", fen, panic_text(e)), J::obj().set("kind", J::s("c15")).set("input", J::s(&fen))),
                    Ok(Err(e)) => rep.fail("C15", "rejects-well-formed/long-fen-or-large-counter", format!("from_fen({:?}) ({} bytes) = Err({})", fen, fen.len(), e), J::obj().set("kind", J::s("c15")).set("input", J::s(&fen))),
                    Ok(Ok(b)) => {
                        if let Some(d) = diff_board(&b, &pos) {
                            rep.fail("C15", "loaded-position-differs", format!("from_fen({:?}): {}", fen, d), J::obj().set("kind", J::s("c15")).set("input", J::s(&fen)));
                        }
                    }
                }
            }
        }
    }
    // other spellings of a well-formed FEN. The loader may accept or refuse them; what it accepts must be
    // the position the string states. (a) the castling letters in every order (every non-empty subset of
    // KQkq, every permutation); (b) blanks: doubled, leading, trailing, tabs; (c) counters left out.
    {
        let base = Pos::from_fen("r3k2r/8/8/8/8/8/8/R3K2R w - - 0 1").unwrap();
        let letters = [('K', rules::WK), ('Q', rules::WQ), ('k', rules::BK), ('q', rules::BQ)];
        let mut spellings: Vec<(String, Pos, &'static str)> = Vec::new();
        fn permute(items: &mut Vec<(char, u8)>, k: usize, out: &mut Vec<Vec<(char, u8)>>) {
            if k == items.len() {
                out.push(items.clone());
                return;
            }
            for i in k..items.len() {
                items.swap(k, i);
                permute(items, k + 1, out);
                items.swap(k, i);
            }
        }
        for mask in 1..16u8 {
            let mut subset: Vec<(char, u8)> = letters.iter().enumerate().filter(|(i, _)| mask & (1 << i) != 0).map(|(_, l)| *l).collect();
            let mut perms = Vec::new();
            permute(&mut subset, 0, &mut perms);
            for perm in perms {
                let field: String = perm.iter().map(|(c, _)| *c).collect();
                let mut want = base;
                want.rights = perm.iter().fold(0, |a, (_, r)| a | r);
                for stm in [rules::WHITE, rules::BLACK] {
                    want.stm = stm;
                    spellings.push((format!("r3k2r/8/8/8/8/8/8/R3K2R {} {} - 0 1", if stm == rules::WHITE { "w" } else { "b" }, field), want, "castling-letters-in-another-order"));
                }
            }
        }
        for f in ["r3k2r/p1ppqpb1/bn2pnp1/3PN3/1p2P3/2N2Q1p/PPPBBPPP/R3K2R w KQkq - 0 1", "4k3/8/8/3pP3/8/8/8/4K3 w - d6 0 1", "8/2p5/3p4/KP5r/1R3p1k/8/4P1P1/8 b - - 12 40"] {
            let want = Pos::from_fen(f).unwrap();
            let t: Vec<&str> = f.split(' ').collect();
            spellings.push((t.join("  "), want, "doubled-blanks"));
            spellings.push((format!(" {}", f), want, "leading-blank"));
            spellings.push((format!("{} ", f), want, "trailing-blank"));
            spellings.push((t.join("\t"), want, "tabs"));
            spellings.push((t[..4].join(" "), want, "no-counters"));
            spellings.push((t[..5].join(" "), want, "no-move-number"));
            spellings.push((format!("{}\n", f), want, "trailing-newline"));
        }
        let mut accepted_spellings = 0u64;
        for (fen, want, what) in &spellings {
            faithful.fetch_add(1, Ordering::Relaxed);
            match catch_unwind(AssertUnwindSafe(|| BoardState::from_fen(fen).map_err(|e| e.to_string()))) {
                Err(e) => rep.fail("C15", &format!("from_fen-panic/{}", what), format!("from_fen({:?}) panicked: {}", fen, panic_text(e)), J::obj().set("kind", J::s("c15")).set("input", J::s(fen))),
                Ok(Err(_)) => {} // refusing an unusual spelling is allowed
                Ok(Ok(b)) => {
                    accepted_spellings += 1;
                    if let Some(d) = diff_board(&b, want) {
                        rep.fail("C15", &format!("loaded-position-differs/{}", what), format!("from_fen({:?}) is accepted but {}", fen, d), J::obj().set("kind", J::s("c15")).set("input", J::s(fen)));
                    } else if b.zobrist_key != scratch_key(want, &h) {
                        rep.fail("C15", &format!("loaded-hidden-fields/{}", what), format!("from_fen({:?}) is accepted but its key differs from the scratch key", fen), J::obj().set("kind", J::s("c15")).set("input", J::s(fen)));
                    }
                }
            }
        }
        rep.add("unusual_spellings_of_well_formed_fens", spellings.len() as u64);
        rep.add("unusual_spellings_accepted_and_compared", accepted_spellings);
    }
    // every material a game can produce at the promotion limit: all base pieces, 8-k pawns and k promoted pieces
    // distributed over knight, bishop, rook and queen in every way (up to ten knights, bishops or rooks, nine
    // queens), for either colour against a bare king and against the same material
    {
        let mut vectors: Vec<[usize; 5]> = Vec::new(); // pawns, N, B, R, Q
        for en in 0..=8usize {
            for eb in 0..=8 - en {
                for er in 0..=8 - en - eb {
                    for eq in 0..=8 - en - eb - er {
                        let promoted = en + eb + er + eq;
                        vectors.push([8 - promoted, 2 + en, 2 + eb, 2 + er, 1 + eq]);
                    }
                }
            }
        }
        let place = |p: &mut Pos, color: u8, v: &[usize; 5]| {
            // own half of the board, pawns from the second rank on, pieces behind and in front of them
            let ranks: Vec<i8> = if color == rules::WHITE { vec![1, 2, 3, 0] } else { vec![6, 5, 4, 7] };
            let mut squares: Vec<u8> = Vec::new();
            for r in &ranks {
                for f in 0..8i8 {
                    squares.push(rules::sq_at(f, *r).unwrap());
                }
            }
            let king_sq = rules::sq_at(4, if color == rules::WHITE { 0 } else { 7 }).unwrap();
            p.b[king_sq as usize] = rules::pc(color, rules::K);
            let mut it = squares.into_iter().filter(|s| *s != king_sq);
            for (kind, n) in [(rules::P, v[0]), (rules::N, v[1]), (rules::B, v[2]), (rules::R, v[3]), (rules::Q, v[4])] {
                for _ in 0..n {
                    let sq = it.next().expect("room for fifteen men");
                    p.b[sq as usize] = rules::pc(color, kind);
                }
            }
        };
        let mut loaded = 0u64;
        for v in &vectors {
            for heavy in [rules::WHITE, rules::BLACK] {
                for both in [false, true] {
                    let mut p = Pos::empty();
                    place(&mut p, heavy, v);
                    if both {
                        place(&mut p, heavy ^ 1, v);
                    } else {
                        p.b[rules::sq_at(4, if heavy == rules::WHITE { 7 } else { 0 }).unwrap() as usize] = rules::pc(heavy ^ 1, rules::K);
                    }
                    for stm in [rules::WHITE, rules::BLACK] {
                        p.stm = stm;
                        if p.is_legal_position() {
                            check_faithful(&p, 0, 40);
                            loaded += 1;
                        }
                    }
                }
            }
        }
        rep.add("promotion_limit_material_vectors", vectors.len() as u64);
        rep.add("promotion_limit_material_fens_loaded", loaded);
    }
    let rejected = rejected.into_inner().unwrap();
    let mut validated = 0;
    if let Some(cli) = cli {
        validated = cli(&rejected, rep);
    }
    rep.add("from_fen_calls_on_arbitrary_strings", calls.load(Ordering::Relaxed));
    rep.add("arbitrary_strings_accepted", accepted.load(Ordering::Relaxed));
    rep.add("arbitrary_strings_rejected_with_error", rejected_n.load(Ordering::Relaxed));
    rep.add("well_formed_fens_loaded_and_compared", faithful.load(Ordering::Relaxed));
    rep.sample(J::obj().set("input", J::s("4k3/8/8/3pP3/8/8/8/4K3 w KQkq ex 0 1")).set("generated_as", J::s("field 3 replaced by a 2-character string")));
    rep.sample(J::obj().set("input", J::s(&Pos::from_fen("r3k2r/8/8/8/8/8/8/R3K2R w KQkq - 0 1").unwrap().fen_with_counters(300, 65535))).set("generated_as", J::s("well-formed FEN with counters beyond 255")));
    rep.assume("one representative per character class the parser distinguishes stands for its class (digits 0 1 3 8 9, piece letters, non-piece letter, file letters a e h i, separators, CR LF NUL, 2-, 3- and 4-byte characters)");
    let total = calls.load(Ordering::Relaxed) + faithful.load(Ordering::Relaxed);
    rep.finish(total, total, validated, true, &format!("all strings of length <= {} over a {}-character class-representative alphabet as the whole input, substituted for each of the six fields, substituted for each placement row; 0..=9 rows; 0..=8 fields with separators and line ends; the oracle's FEN of every state of the Kk+X, castle, ep and promo+rights families with counters (0,1) and, on a stride, all pairs of 11 counter values", l, alphabet.len()))
}

fn classify_panic_input(input: &str, what: &str) -> String {
    let fields: Vec<&str> = input.split(' ').collect();
    if fields.len() == 6 && fields[3].len() == 2 && fields[3] != "-" {
        if !fields[3].is_ascii() {
            return "en-passant-field-non-ascii".to_string();
        }
        return "en-passant-field-bad-rank-char".to_string();
    }
    what.split(' ').take(2).collect::<Vec<_>>().join("-")
}

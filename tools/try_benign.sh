#!/bin/sh
# tools/try_benign.sh <patch> : applies a behaviour-preserving change and runs every quick check; any exit != 0 is a false alarm or a fragility of the machinery
PATCH="$1"
cd /repo || exit 2
git diff --quiet || { echo "/repo dirty"; exit 2; }
git apply "$PATCH" || { echo "patch does not apply"; exit 2; }
trap 'git -C /repo checkout -- . ' EXIT INT TERM
cd /verif
for id in C01 C02 C03 C04 C05 C06 C07 C08 C09 C10 C11 C12 C13 C14 C15 C16 C17 C18; do
  out=$(bin/check "$id" quick 2>&1); rc=$?
  echo "$id exit $rc"
  [ $rc -ne 0 ] && echo "$out" | grep -E "^(VIOLATION|MACHINERY|error|  )" | cut -c1-300 | head -6
done

#!/bin/sh
# tools/verify_seed.sh <worktree> test <src file> <test filter>   (demo/demo_test.rs is appended to the src file)
# tools/verify_seed.sh <worktree> script <script relative to worktree>
# Confirms in the scratch worktree: suite passes with the change; demo fails with it and passes without it.
set -u
WT="$1"; MODE="$2"
cd "$WT" || exit 2
export CARGO_NET_OFFLINE=true
[ -f patch.diff ] || { echo "no patch.diff"; exit 2; }
# state: patch applied (agents leave it applied). Normalise: reset src, apply patch
git checkout -- src >/dev/null 2>&1
git apply patch.diff || { echo "patch.diff does not apply to a clean tree"; exit 2; }
echo "--- suite with the change:"
cargo test --offline 2>&1 | grep -E "^test result" | head -3
run_demo() {
  if [ "$MODE" = "test" ]; then
    cp "$3" /tmp/verify_seed_backup.$$
    cat demo/demo_test.rs >> "$3"
    cargo test --offline "$4" 2>&1 | grep -E "^test result|panicked|error(\[|:)" | head -6
    cp /tmp/verify_seed_backup.$$ "$3"; rm -f /tmp/verify_seed_backup.$$
  else
    cargo build --offline >/dev/null 2>&1
    sh "$3" 2>&1 | tail -4; echo "script exit: $?"
  fi
}
echo "--- demo WITH the change (must fail):"
run_demo "$@"
git apply -R patch.diff
echo "--- demo WITHOUT the change (must pass):"
run_demo "$@"
git apply patch.diff

#!/usr/bin/env python3
"""tools/save_seed.py <id> <worktree> <property> <caught_by: comma list or 'none'> <needs...>  — store a confirmed seeded change under /verif/seeded/<id>/"""
import sys, os, shutil, json
sid, wt, prop, caught, needs = sys.argv[1], sys.argv[2], sys.argv[3], sys.argv[4], sys.argv[5]
extra = sys.argv[6] if len(sys.argv) > 6 else ""
d = f"/verif/seeded/{sid}"
os.makedirs(d, exist_ok=True)
shutil.copy(f"{wt}/patch.diff", f"{d}/patch.diff")
if os.path.isdir(f"{d}/demo"):
    shutil.rmtree(f"{d}/demo")
shutil.copytree(f"{wt}/demo", f"{d}/demo")
meta = {
    "id": sid,
    "breaks_property": prop,
    "origin": "independent sub-agent given only the property text and a scratch worktree",
    "needs_to_manifest": needs,
    "confirmed": "in the scratch worktree: `cargo test --offline` 107 passed with the change; the demonstration fails with the change and passes without it (tools/verify_seed.sh)",
    "ran": f"tools/try_seed.sh /verif/seeded/{sid}/patch.diff quick {' '.join(caught.split(',')) if caught!='none' else prop}",
    "caught_by_quick_checks": [] if caught == 'none' else caught.split(','),
    "notes": extra,
}
json.dump(meta, open(f"{d}/meta.json", "w"), indent=1)
print("saved", d)

#!/bin/sh
# tools/regress_seeds.sh [tier]  — applies every stored seeded change in turn, runs the checks its meta.json
# says catch it, and reports any that is no longer caught. /repo is restored after each.
TIER="${1:-quick}"
cd /verif || exit 2
fail=0
for d in seeded/*/; do
  id=$(basename "$d")
  checks=$(python3 -c "import json,sys; m=json.load(open('$d/meta.json')); print(' '.join(m['caught_by_quick_checks'][:1]))")
  [ -z "$checks" ] && { echo "$id: no check recorded"; continue; }
  out=$(tools/try_seed.sh "/verif/${d}patch.diff" "$TIER" $checks 2>&1)
  if echo "$out" | grep -q "exit 1"; then echo "caught   $id by $checks"; else echo "MISSED   $id ($checks)"; echo "$out" | head -5; fail=1; fi
done
exit $fail

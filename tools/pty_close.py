#!/usr/bin/env python3
"""tools/pty_close.py <engine binary> <working dir>
Runs the engine with the MASTER end of a pseudo-terminal as its standard input, talks to it through the slave
end, then closes the slave end: from then on the engine's reads fail with EIO (a read error, not end of file).
Exit 0: the process ended within 3 s; 1: it was still running (killed); 2: could not run the experiment."""
import os, pty, subprocess, sys, time
try:
    master, slave = pty.openpty()
    p = subprocess.Popen([sys.argv[1]], stdin=master, stdout=subprocess.PIPE, stderr=subprocess.DEVNULL, cwd=sys.argv[2])
    os.write(slave, b"uci\nisready\n")
    time.sleep(0.3)
    os.close(slave)
except Exception as e:
    print("cannot run:", e)
    sys.exit(2)
end = time.time() + 3.0
while time.time() < end:
    if p.poll() is not None:
        print("ended with status", p.returncode)
        sys.exit(0)
    time.sleep(0.02)
p.kill()
print("still running 3 s after its input started failing")
sys.exit(1)

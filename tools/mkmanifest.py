#!/usr/bin/env python3
"""Regenerates /verif/MANIFEST.json from the table below (kept by hand)."""
import json
props=[json.loads(l) for l in open('/verif/properties.jsonl')]
E1="E1 posgraph"; E2="E2 clockpoints"; E3="E3 sched (loom)"; E4="E4 session"; E5="E5 pure"
T={
'C01':(E1,"every distinct state of the S1 reach graph (38 roots to depth 2-6 quick, deeper thorough) and of the complete small-scope families (K+k+<=1 piece, castling, en passant, promotion; thorough adds second pieces and deeper follow-ups) is expanded with the real generator and its move list compared, as a multiset of (from,to,promotion), with an independent rules oracle","explicit-state exploration of the position graph + complete small-scope family enumeration, differential against a reference model","4 C01"),
'C02':(E1,"every edge of the same graph: the engine's successor object is compared field by field (placement, side, rights, ep target, king cache, sentinel ring, descriptor, printed text) with the oracle's make(); successors are followed as engine objects so inherited fields travel along chains","explicit-state exploration, per-edge comparison with a reference model","4 C02"),
'C04':(E1,"every edge replayed through the real text applier and every BFS tree path through the real `position ... moves ...` handler; 3-way equality generator = text applier = oracle including the hash","explicit-state exploration, per-edge and per-path replay through the second producer","4 C04"),
'C05':(E1,"every state of the graph reached by each of the three producers has key == key recomputed from scratch; transpositions are witnessed by the visited map","explicit-state exploration with a scratch-hash invariant on every state and producer","4 C05"),
'C13':(E1,"from every explored state all capture-only chains are followed to their end with the oracle tracking the true position in lock-step","explicit-state exploration of capture-only chains with a lock-step reference model","4 C13"),
'C06':(E5,"all placements of two kings and <=1 (quick) / <=2 (thorough) further pieces of any type, unfiltered by legality, both colours asked, compared with a forward attack oracle","complete enumeration of a bounded placement space against a reference model","4 C06"),
'C09':(E5,"full product of a boundary grid of clock/increment values for mover and opponent x movestogo x colour through the real time policy, and all orderings of the go keys through the real parser, against exact integer arithmetic","complete enumeration of a boundary grid against an exact reference","4 C09"),
'C14':(E5,"all placements of <=2 (quick) / <=3 (thorough) pieces of the 12 types on any squares, every material vector on extremal squares, all non-placement fields toggled: mirror, negation, purity identities and magnitude bound","complete enumeration of a bounded placement space with algebraic identities as oracle","4 C14"),
'C15':(E5,"all strings up to length 3/4 over a class-representative alphabet as whole input, per field and per placement row, under catch_unwind; the oracle's FEN of every small-scope family state with all pairs of 11 counter values loaded and compared field by field","complete enumeration of bounded input strings + reference model comparison","4 C15"),
'C07':(E2,"for 20 roots: the un-expired run and EVERY clock-expiry index k=0..K of the real get_best_move under a virtual clock; prefix relation to the un-expired run, legality, repetition record restored as a count function, no panic, determinism","exhaustive enumeration of crash (clock-expiry) points of the real search against its own un-expired run","4 C07"),
'C10':(E2,"all move paths (not states) to a depth from repetition-prone roots and constructed n-fold cycles (n<=100) through the real position handler against a reference multiset; real search from every history that offers a repetition move","exhaustive enumeration of bounded histories against a reference multiset + searches from each","4 C10"),
'C11':(E2,"every legal non-terminal position of the complete KQK and KRK families searched by the real search; each mate announcement judged against exact retrograde distance-to-mate tables built over the rules oracle","complete family enumeration against retrograde (backward-reachability) tables","4 C11"),
'C12':(E2,"KQK/KRK families on a stride, all short histories from low-material roots, repetition histories: iterations 1..3 of the real search compared move by move with plain negamax over the engine's own generator and evaluation","bounded exhaustive enumeration of roots/histories against a reference minimax","4 C12"),
'C18':(E2,"every info line of every run of the expiry sweep (all roots, all expiry indices): grammar, bounds, first PV move legal and equal to the move handed back, monotone depth, increasing scores","exhaustive enumeration of clock-expiry points; every emitted line checked","4 C18"),
'C03':(E3,"conjunction of (a) every successor of every explored state printed by the real printer, (b) every clock-expiry index of the search hands back only root successors, (c)(d) go parameter sequences and sequences of go commands as sessions of the real binary with the oracle replaying each answer, (e) all interleavings of the real I/O thread and search thread under loom for every expiry index","loom exploration of the real two-thread hand-off x exhaustive expiry indices, plus explicit-state and session enumeration","4 C03"),
'C08':(E3,"all interleavings (loom) x every expiry index on non-terminal, checkmated and stalemated roots, one and two go commands: exactly one bestmove per go, null move on a finished game, no livelock, bounded unwinding; sessions of the real binary stay responsive; wall-clock smoke run","loom exploration of the real hand-off with a livelock horizon + session enumeration","4 C08"),
'C16':(E4,"BFS over the UCI session state graph (state = dumped loop locals, transition = one command executed by the real binary in a fresh process); every probe after every state compared with a fresh engine; raw prefixes cross-check the dedup","explicit-state BFS of the session state machine on the real binary, differential against a fresh engine","4 C16"),
'C17':(E4,"every unknown/garbage line inserted at every position of every short session of well-formed commands: no output, state unchanged, readyok; quit and end-of-input after every session must end the process","exhaustive enumeration of bounded sessions with fault (garbage / end-of-input) injection at every point","4 C17"),
}
NOTE={
E1:"trusted: the rules oracle (self-tested against 40 published perft totals on every run), 128-bit state fingerprints; bounds: depth limits per root and the listed families, not all positions",
E2:"trusted: the virtual clock seam (hook H2), the rules oracle, the reference search / retrograde tables in the harness; bounds: the root set and iteration depths stated in the evidence",
E3:"trusted: loom's exploration of the shim's scheduling points (own mpsc over loom Mutex, clock as loom atomic, spawn/join, yield in the polling loop), preemption bound 2/3 (unbounded for small expiry indices); the shim is conformance-checked against free-running std threads of the real binary",
E4:"trusted: the hook that dumps the loop's two mutable locals and the environment-driven virtual clock; sessions bounded in length and alphabet as stated; hooks-on vs hooks-off binaries are compared on a sample of sessions every run",
E5:"trusted: the reference arithmetic / rules oracle in the harness; bounds: the stated enumeration limits (piece counts, string length, grid), argued in DESIGN.md §6",
}
m={
 "version":1,
 "setup_cmd":"bin/setup",
 "hooks":{"guard":"cargo feature `verif` (and `verif_loom`, which implies it)","enable":"harness crates #[path]-include /repo/src/*.rs with feature verif on; the real binary is built with `cargo build --features verif`","baseline_off_cmd":"cd /repo && cargo test --workspace --no-fail-fast --offline","source_commits":["ae82532","61c4624"],"add_only":True},
 "engines":[
  {"name":E1,"path":"harness/src/e1_posgraph.rs","serves_properties":["C01","C02","C03","C04","C05","C13"],"kind_free_text":"explicit-state BFS over chess positions; transition function = the engine's real generate_moves; oracle = independent rules model (harness/src/rules.rs)"},
  {"name":E2,"path":"harness/src/e2_clockpoints.rs","serves_properties":["C03","C07","C10","C11","C12","C18"],"kind_free_text":"runs the real get_best_move on the calling thread under a virtual clock for every expiry index; reference search and retrograde tables as oracles"},
  {"name":E3,"path":"harness-loom/src/main.rs","serves_properties":["C03","C07","C08","C09"],"kind_free_text":"loom model of the real find_and_play_best_move + get_best_move threads; one process per (root, expiry vector, preemption bound)"},
  {"name":E4,"path":"harness/src/e4_session.rs","serves_properties":["C03","C08","C10","C15","C16","C17"],"kind_free_text":"BFS / bounded enumeration of UCI sessions, each executed by a fresh process of the real binary (hooks on: virtual clock + state dump; hooks off for conformance and lifecycle)"},
  {"name":E5,"path":"harness/src/e5_pure.rs","serves_properties":["C06","C09","C14","C15"],"kind_free_text":"complete nested-loop enumeration of bounded input spaces for pure functions"},
 ],
 "checks":[],
 "not_applicable":[]
}
for p in props:
    i=p['id']
    if i in T:
        eng,text,tech,ref=T[i]
        m['checks'].append({"property_id":i,"quick_cmd":f"bin/check {i} quick","thorough_cmd":f"bin/check {i} thorough","evidence_file":f"evidence/{i}.json","replay_cmd_template":"bin/check --replay {path}","engine":eng,"level_claimed":{"category":"model_checking","text":text,"design_ref":"DESIGN.md §"+ref},"level_note":NOTE[eng],"technique":tech})
    else:
        m['not_applicable'].append({"property_id":i,"reason":"check not yet built in this revision (planned, see DESIGN.md §4); not a statement that the technique cannot apply"})
json.dump(m,open('/verif/MANIFEST.json','w'),indent=1)
print(len(m['checks']),'checks,',len(m['not_applicable']),'not claimed')

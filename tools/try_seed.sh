#!/bin/sh
# tools/try_seed.sh <patch.diff> <tier> <ID> [<ID>...]
# Applies a seeded change to /repo, runs the named checks, and undoes the change straight afterwards.
set -u
PATCH="$1"; TIER="$2"; shift 2
cd /repo || exit 2
if ! git diff --quiet; then echo "/repo has uncommitted changes, refusing"; exit 2; fi
git apply "$PATCH" || { echo "patch does not apply"; exit 2; }
trap 'git -C /repo checkout -- . ' EXIT INT TERM
cd /verif
for id in "$@"; do
  start=$(date +%s)
  out=$(bin/check "$id" "$TIER" 2>&1); rc=$?
  end=$(date +%s)
  echo "== $id $TIER: exit $rc ($((end-start)) s)"
  echo "$out" | grep -E "^(VIOLATION|KNOWN-FINDING|MACHINERY|  )" | cut -c1-400 | head -8
done

//! wmc-sched — explores all interleavings (up to a preemption bound) of the real
//! find_and_play_best_move (I/O thread) with the search thread it spawns, for one root and one
//! clock-expiry index per process. Prints one JSON line.
#![allow(clippy::all)]
#![allow(dead_code, unused_imports)]

// the engine's print!/println! go to the model of standard output (one lock acquisition per call, like std's);
// this harness's own output uses std::println! by path
macro_rules! println {
    () => { $crate::sched::io::print_str("\n") };
    ($($arg:tt)*) => { $crate::sched::io::print_str(&format!("{}\n", format_args!($($arg)*))) };
}
macro_rules! print {
    ($($arg:tt)*) => { $crate::sched::io::print_str(&format!($($arg)*)) };
}

#[path = "/repo/src/board.rs"]
mod board;
#[path = "/repo/src/draw_table.rs"]
mod draw_table;
#[path = "/repo/src/engine.rs"]
mod engine;
#[path = "/repo/src/evaluation.rs"]
mod evaluation;
#[path = "/repo/src/move_generation.rs"]
mod move_generation;
#[path = "/repo/src/search.rs"]
mod search;
#[path = "/repo/src/time_control.rs"]
mod time_control;
#[path = "/repo/src/uci.rs"]
mod uci;
#[path = "/repo/src/utils.rs"]
mod utils;
#[path = "/repo/src/verif.rs"]
mod verif;
#[path = "/repo/src/zobrist.rs"]
mod zobrist;

#[path = "../../harness/src/bridge.rs"]
mod bridge;
#[path = "../../harness/src/rules.rs"]
mod rules;
mod sched;

use std::collections::BTreeMap;
use std::sync::atomic::{AtomicU64, Ordering};
use std::sync::Mutex;

static EXECUTIONS: AtomicU64 = AtomicU64::new(0);
static OUTCOMES: Mutex<BTreeMap<String, u64>> = Mutex::new(BTreeMap::new());
static VIOLATIONS: Mutex<Vec<(String, String, String)>> = Mutex::new(Vec::new()); // (property, signature, summary)

fn esc(s: &str) -> String {
    s.replace('\\', "\\\\").replace('"', "\\\"").replace('\n', " ")
}

fn finish(fen: &str, ks: &[usize], bound: &str, gos: usize, complete: bool) -> ! {
    let outcomes = OUTCOMES.lock().unwrap();
    let v = VIOLATIONS.lock().unwrap();
    let outs: Vec<String> = outcomes.iter().map(|(k, n)| format!("\"{}\": {}", esc(k), n)).collect();
    let viol = if v.is_empty() {
        "null".to_string()
    } else {
        let items: Vec<String> = v.iter().map(|(p, s, m)| format!("{{\"property\": \"{}\", \"signature\": \"{}\", \"summary\": \"{}\"}}", esc(p), esc(s), esc(m))).collect();
        format!("[{}]", items.join(", "))
    };
    std::println!(
        "{{\"fen\": \"{}\", \"expiry\": {:?}, \"bound\": \"{}\", \"gos\": {}, \"executions\": {}, \"complete\": {}, \"outcomes\": {{{}}}, \"violation\": {}}}",
        esc(fen),
        ks,
        bound,
        gos,
        EXECUTIONS.load(Ordering::Relaxed),
        complete,
        outs.join(", "),
        viol
    );
    std::process::exit(0);
}

fn violate(prop: &str, sig: &str, summary: String) {
    let mut v = VIOLATIONS.lock().unwrap();
    if !v.iter().any(|(p, s, _)| p == prop && s == sig) {
        v.push((prop.to_string(), sig.to_string(), summary));
    }
}

/// One execution: `gos` consecutive go commands on the real I/O path.
fn body(fen: &str, ks: &[usize], gos: usize) {
    let fen = fen.to_string();
    let c = sched::install(ks.to_vec(), 0);
    let fen2 = fen.clone();
    // the I/O thread of the engine
    let io = loom::thread::Builder::new()
        .stack_size(1 << 21)
        .spawn(move || {
            let mut board = board::BoardState::from_fen(&fen2).unwrap();
            let mut table = draw_table::DrawTable::new();
            table.table.insert(board.zobrist_key, 1);
            let cmd = ["go", "wtime", "100000", "btime", "100000"];
            let mut boards: Vec<board::BoardState> = Vec::new();
            for g in 0..gos {
                sched::ctx().current_go.store(g, std::sync::atomic::Ordering::SeqCst);
                let start = std::time::Instant::now() + std::time::Duration::from_secs(g as u64); // distinct key per go
                let r = std::panic::catch_unwind(std::panic::AssertUnwindSafe(|| uci::verif_find_and_play_best_move(&cmd, &mut board, start, &mut table)));
                match r {
                    Ok(b) => {
                        boards.push(b.clone());
                        board = b;
                    }
                    Err(e) => {
                        if e.downcast_ref::<sched::thread::Livelock>().is_none() {
                            let msg = if let Some(s) = e.downcast_ref::<&str>() { s.to_string() } else if let Some(s) = e.downcast_ref::<String>() { s.clone() } else { "panic".into() };
                            if msg.contains("self.threads.len()") || msg.contains("max_branches") {
                                // a limit of the explorer itself, not a behaviour of the engine
                                eprintln!("MACHINERY-ERROR: loom limit hit: {}", msg);
                                std::process::exit(2);
                            }
                            sched::ctx().search_panics.lock().unwrap().push(format!("io thread: {}", msg));
                        }
                        break;
                    }
                }
            }
            boards
        })
        .unwrap();
    let boards = io.join().unwrap();
    // join every search thread: its tail (after the answer has been given) belongs to the execution
    loop {
        let h = c.handles.lock().unwrap().pop();
        match h {
            Some(Some(h)) => {
                let _ = h.join();
            }
            Some(None) => {} // the engine joined it itself
            None => break,
        }
    }
    EXECUTIONS.fetch_add(1, Ordering::Relaxed);

    // ------------------------------------------------------------------ oracle for this execution
    let mut pos = rules::Pos::from_fen(&fen).unwrap();
    let captured = c.captured.lock().unwrap().clone();
    let mut outcome: Vec<String> = Vec::new();
    let ks_text = format!("{:?}", ks);
    if let Some(l) = c.livelock.lock().unwrap().clone() {
        violate("C08", if pos.legal_moves().is_empty() { "no-answer/root-without-legal-move" } else { "no-answer" }, format!("{} expiry {}: livelock: {}", fen, ks_text, l));
        // never answered = an unbounded delay between go and bestmove
        violate("C09", "delay-unbounded/go-never-answered", format!("{} expiry {}: the go is never answered although the planned time has passed", fen, ks_text));
        outcome.push("livelock".into());
    }
    let mut io_died = false;
    for p in c.search_panics.lock().unwrap().iter() {
        if std::env::var("WMC_DEBUG").is_ok() {
            eprintln!("panic in model thread: {}", p);
        }
        if p.starts_with("io thread:") {
            // the command loop's thread dies: this go is never answered and the engine serves nothing further
            io_died = true;
            violate("C08", "io-thread-panic", format!("{} expiry {}: {}", fen, ks_text, p));
            violate("C03", "io-thread-panic", format!("{} expiry {}: {} (no bestmove for this go)", fen, ks_text, p));
            outcome.push("io-panic".into());
        } else {
            let sig = if p.contains("SendError") { "search-thread-panic/send-to-dropped-receiver" } else { "search-thread-panic" };
            violate("C07", sig, format!("{} expiry {}: {}", fen, ks_text, p));
            outcome.push("panic".into());
        }
    }
    for g in 0..gos {
        let best: Vec<&(String, bool, usize)> = captured.iter().filter(|(l, _, go)| l.starts_with("bestmove") && *go == g).collect();
        let legal = pos.legal_moves();
        if c.livelock.lock().unwrap().is_some() || io_died {
            break;
        }
        if best.len() != 1 {
            violate(if legal.is_empty() { "C08" } else { "C03" }, "bestmove-count", format!("{} expiry {} go #{}: {} bestmove lines", fen, ks_text, g + 1, best.len()));
            outcome.push(format!("{}-bestmoves", best.len()));
            break;
        }
        let (line, expired_at_capture, _) = best[0];
        let text = line.split_whitespace().nth(1).unwrap_or("").to_string();
        outcome.push(text.clone());
        // (a null-move answer on a finished game is given at once: there is nothing to think about)
        if !*expired_at_capture && !legal.is_empty() {
            violate("C09", "answered-before-the-deadline", format!("{} expiry {} go #{}: '{}' was printed while the (virtual) deadline had not passed", fen, ks_text, g + 1, line));
        }
        if legal.is_empty() {
            if text != "0000" && text != "(none)" {
                violate("C08", "terminal-root-answer-not-null-move", format!("{} go #{}: '{}'", fen, g + 1, line));
            }
            break;
        }
        match rules::Mv::from_uci(&text) {
            Some(m) if legal.contains(&m) => {
                // the board handed back must be that successor
                if let Some(b) = boards.get(g) {
                    if bridge::diff_board(b, &pos.make(&m)).is_some() {
                        violate("C03", "returned-board-is-not-the-answered-move", format!("{} expiry {} go #{}: '{}'", fen, ks_text, g + 1, line));
                    }
                }
                pos = pos.make(&m);
            }
            _ => {
                violate("C03", "bestmove-illegal-or-malformed", format!("{} expiry {} go #{}: '{}' is not a legal move in UCI notation", fen, ks_text, g + 1, line));
                break;
            }
        }
    }
    // C08: after expiry the search thread only unwinds (bounded number of further consultations)
    let bound = 218 * 8;
    for q in c.search_queries_after_expiry.lock().unwrap().iter() {
        if *q > bound {
            violate("C08", "search-thread-runs-on-after-expiry", format!("{} expiry {}: {} consultations after the deadline", fen, ks_text, q));
        }
    }
    // what the GUI receives: every line that left through the model of standard output is exactly one of the
    // messages the engine meant to send (two threads print; a line assembled from several writes can be torn)
    let emitted = c.emitted.lock().unwrap().clone();
    let leftover = String::from_utf8_lossy(&c.stdout_buf.lock().unwrap()).to_string();
    if !emitted.is_empty() || !leftover.is_empty() {
        let mut pool: Vec<String> = captured.iter().map(|(l, _, _)| l.clone()).collect();
        for l in &emitted {
            match pool.iter().position(|m| m == l) {
                Some(i) => {
                    pool.remove(i);
                }
                None => {
                    if l.contains("bestmove") {
                        violate("C03", "output-line-torn-between-threads", format!("{} expiry {}: the GUI receives the line '{}', which is not one of the messages sent", fen, ks_text, l));
                    }
                    if l.contains("info") || !l.contains("bestmove") {
                        violate("C18", "output-line-torn-between-threads", format!("{} expiry {}: the GUI receives the line '{}', which is not one of the messages sent", fen, ks_text, l));
                    }
                    outcome.push("torn-line".into());
                }
            }
        }
        if !leftover.is_empty() {
            violate("C03", "output-ends-inside-a-line", format!("{} expiry {}: the output ends with the unterminated text '{}'", fen, ks_text, leftover));
        }
    }
    *OUTCOMES.lock().unwrap().entry(outcome.join(" ")).or_insert(0) += 1;
    sched::uninstall();
    if !VIOLATIONS.lock().unwrap().is_empty() {
        // first violating schedule found: report and stop (one process per model)
        let b = std::env::var("WMC_BOUND").unwrap_or_default();
        finish(&fen, ks, &b, gos, false);
    }
}

fn main() {
    std::panic::set_hook(Box::new(|_| {}));
    let args: Vec<String> = std::env::args().collect();
    if args.len() < 5 || args[1] != "run" {
        eprintln!("usage: wmc-sched run <fen> <k[,k2..]> <preemption bound|none> [gos]");
        std::process::exit(2);
    }
    let fen = args[2].clone();
    let ks: Vec<usize> = args[3].split(',').map(|x| x.parse().unwrap()).collect();
    let bound: Option<usize> = if args[4] == "none" { None } else { Some(args[4].parse().unwrap()) };
    let gos: usize = args.get(5).map(|x| x.parse().unwrap()).unwrap_or(1);
    std::env::set_var("WMC_BOUND", &args[4]);
    let mut b = loom::model::Builder::new();
    b.preemption_bound = bound;
    b.max_branches = 1_000_000;
    b.max_threads = 5; // loom's compile-time limit: the model's first thread, the I/O thread and up to three search threads
    let wall = std::env::var("WMC_MAX_SECS").ok().and_then(|s| s.parse().ok()).unwrap_or(600u64);
    b.max_duration = Some(std::time::Duration::from_secs(wall));
    let t0 = std::time::Instant::now();
    let (f2, k2) = (fen.clone(), ks.clone());
    b.check(move || body(&f2, &k2, gos));
    let complete = t0.elapsed().as_secs() < wall;
    finish(&fen, &ks, &args[4], gos, complete);
}

//! Scheduler shim: what the engine's `std::sync::mpsc` / `std::thread` resolve to in the loom build
//! (feature verif_loom), plus the hook bodies src/verif.rs forwards to.
#![allow(dead_code)]
use std::sync::Arc;

use loom::sync::atomic::{AtomicUsize, Ordering::SeqCst};
use std::sync::atomic::AtomicUsize as StdAtomicUsize;

/// Per-execution context. loom objects must be created inside the model closure, so the context is
/// installed at the start of every execution and removed at its end.
pub struct Ctx {
    /// one virtual clock per `go` (keyed by the `start` instant the engine passes around)
    // the registry is bookkeeping (std lock, never held across a scheduling point); the clocks themselves are loom atomics
    pub clocks: std::sync::Mutex<Vec<std::time::Instant>>,
    // created up front by the model's first thread, so that their creation happens-before every use
    pub clock_cells: Vec<Arc<AtomicUsize>>,
    pub expiry: Vec<usize>,
    pub search_running: StdAtomicUsize, // searches entered and not yet finished
    pub search_entered: StdAtomicUsize,
    pub idle_polls_after_done: StdAtomicUsize,
    pub current_go: StdAtomicUsize, // set by the harness body before each go (a go on a finished game consults no clock)
    pub handles: std::sync::Mutex<Vec<Option<loom::thread::JoinHandle<()>>>>,
    // observations (std primitives: no scheduling points, never held across one)
    pub captured: std::sync::Mutex<Vec<(String, bool, usize)>>, // (line, clock expired when captured, go index)
    // the model of standard output: one shared byte buffer (std's LineWriter), every write locks it (a
    // scheduling point); complete lines move to `emitted`
    pub stdout_buf: loom::sync::Mutex<Vec<u8>>,
    pub emitted: std::sync::Mutex<Vec<String>>,
    pub search_panics: std::sync::Mutex<Vec<String>>,
    pub sends_after_expiry: std::sync::Mutex<usize>,
    pub search_queries_after_expiry: std::sync::Mutex<Vec<usize>>,
    pub livelock: std::sync::Mutex<Option<String>>,
    pub stop_depth: u8,
}

static CTX: std::sync::Mutex<Option<Arc<Ctx>>> = std::sync::Mutex::new(None);

pub fn install(expiry: Vec<usize>, stop_depth: u8) -> Arc<Ctx> {
    let c = Arc::new(Ctx {
        clocks: std::sync::Mutex::new(Vec::new()),
        clock_cells: (0..4).map(|_| Arc::new(AtomicUsize::new(0))).collect(),
        expiry,
        search_running: StdAtomicUsize::new(0),
        search_entered: StdAtomicUsize::new(0),
        idle_polls_after_done: StdAtomicUsize::new(0),
        current_go: StdAtomicUsize::new(0),
        handles: std::sync::Mutex::new(Vec::new()),
        captured: std::sync::Mutex::new(Vec::new()),
        stdout_buf: loom::sync::Mutex::new(Vec::new()),
        emitted: std::sync::Mutex::new(Vec::new()),
        search_panics: std::sync::Mutex::new(Vec::new()),
        sends_after_expiry: std::sync::Mutex::new(0),
        search_queries_after_expiry: std::sync::Mutex::new(Vec::new()),
        livelock: std::sync::Mutex::new(None),
        stop_depth,
    });
    *CTX.lock().unwrap() = Some(c.clone());
    c
}

pub fn uninstall() {
    *CTX.lock().unwrap() = None;
}

pub fn ctx() -> Arc<Ctx> {
    CTX.lock().unwrap().as_ref().expect("scheduler context not installed").clone()
}

// loom runs its model threads as coroutines of ONE OS thread: std's thread_local would be shared
loom::thread_local! {
    // what this thread's latest clock consultation answered
    pub static LAST_ANSWER_EXPIRED: std::cell::Cell<bool> = std::cell::Cell::new(false);
    static IS_SEARCH: std::cell::Cell<Option<usize>> = std::cell::Cell::new(None); // Some(queries after expiry)
}

impl Ctx {
    /// (clock of this go, its index)
    fn clock_for(&self, start: std::time::Instant) -> (Arc<AtomicUsize>, usize) {
        let mut v = self.clocks.lock().unwrap();
        let i = match v.iter().position(|s| *s == start) {
            Some(i) => i,
            None => {
                v.push(start);
                v.len() - 1
            }
        };
        (self.clock_cells[i.min(self.clock_cells.len() - 1)].clone(), i)
    }
    fn expiry_of(&self, go: usize) -> usize {
        self.expiry[go.min(self.expiry.len() - 1)]
    }
}

/// what the calling thread's latest clock consultation answered (no scheduling point)
pub fn my_last_answer_expired() -> bool {
    LAST_ANSWER_EXPIRED.with(|c| c.get())
}

pub mod hooks {
    use super::*;
    use crate::board::BoardState;
    use crate::draw_table::DrawTable;

    /// The clock is one shared monotone fact: the i-th consultation (in the total order of both
    /// threads' consultations) answers i >= k.
    pub fn clock_query(start: std::time::Instant, time_to_move_ms: u128) -> Option<bool> {
        if time_to_move_ms == 0 {
            return None;
        }
        let c = ctx();
        let (clock, go) = c.clock_for(start);
        let n = clock.fetch_add(1, SeqCst);
        let expired = n >= c.expiry_of(go);
        LAST_ANSWER_EXPIRED.with(|c| c.set(expired));
        if expired {
            IS_SEARCH.with(|s| {
                if let Some(q) = s.get() {
                    s.set(Some(q + 1));
                }
            });
        }
        Some(expired)
    }

    pub fn capture(msg: &str) -> bool {
        let c = ctx();
        // did the printing thread's own latest consultation say "expired"?
        let expired = my_last_answer_expired();
        let go = c.current_go.load(SeqCst);
        c.captured.lock().unwrap().push((msg.to_string(), expired, go));
        // not swallowed: the engine's own printing statements run against the model of standard output
        false
    }

    pub struct SearchGuard {
        ctx: Arc<Ctx>,
    }

    impl Drop for SearchGuard {
        fn drop(&mut self) {
            let q = IS_SEARCH.with(|s| s.take()).unwrap_or(0);
            self.ctx.search_queries_after_expiry.lock().unwrap().push(q);
            self.ctx.search_running.fetch_sub(1, SeqCst);
        }
    }

    pub fn search_enter(_board: &BoardState, _draw_table: &DrawTable) -> SearchGuard {
        let c = ctx();
        IS_SEARCH.with(|s| s.set(Some(0)));
        c.search_entered.fetch_add(1, SeqCst);
        c.search_running.fetch_add(1, SeqCst);
        SearchGuard { ctx: c }
    }

    pub fn stop_after_depth(depth: u8) -> bool {
        let d = ctx().stop_depth;
        d != 0 && depth >= d
    }

    pub fn loop_state(_buffer: &str, _board: &BoardState, _draw_table: &DrawTable) {}

    // the std-mode API used by nothing in this build, kept so that both builds expose the same names
    pub fn arm_thread(_expiry: Option<u64>, _stop_depth: u8, _capture: bool) {}
    pub fn disarm_thread() {}
    pub fn clock_queries() -> u64 {
        0
    }
    pub fn take_capture() -> Vec<String> {
        Vec::new()
    }
}

pub mod mpsc {
    use super::*;
    use std::collections::VecDeque;

    struct Chan<T> {
        q: loom::sync::Mutex<(VecDeque<T>, bool, usize)>, // (queue, receiver alive, senders alive)
    }

    pub struct Sender<T> {
        chan: Arc<Chan<T>>,
    }
    pub struct Receiver<T> {
        chan: Arc<Chan<T>>,
    }
    pub struct SendError<T>(pub T);
    impl<T> std::fmt::Debug for SendError<T> {
        fn fmt(&self, f: &mut std::fmt::Formatter<'_>) -> std::fmt::Result {
            write!(f, "SendError {{ .. }}")
        }
    }
    #[derive(Debug, PartialEq, Eq)]
    pub enum TryRecvError {
        Empty,
        Disconnected,
    }

    pub fn channel<T>() -> (Sender<T>, Receiver<T>) {
        let chan = Arc::new(Chan { q: loom::sync::Mutex::new((VecDeque::new(), true, 1)) });
        (Sender { chan: chan.clone() }, Receiver { chan })
    }

    impl<T> Sender<T> {
        /// std semantics: fails iff the receiver has been dropped
        pub fn send(&self, t: T) -> Result<(), SendError<T>> {
            let mut g = self.chan.q.lock().unwrap();
            if !g.1 {
                return Err(SendError(t));
            }
            g.0.push_back(t);
            Ok(())
        }
    }
    impl<T> Clone for Sender<T> {
        fn clone(&self) -> Self {
            let mut g = self.chan.q.lock().unwrap();
            g.2 += 1;
            drop(g);
            Sender { chan: self.chan.clone() }
        }
    }
    impl<T> Drop for Sender<T> {
        fn drop(&mut self) {
            let mut g = self.chan.q.lock().unwrap();
            g.2 -= 1;
        }
    }
    impl<T> Receiver<T> {
        pub fn try_recv(&self) -> Result<T, TryRecvError> {
            let mut g = self.chan.q.lock().unwrap();
            match g.0.pop_front() {
                Some(t) => Ok(t),
                None => {
                    if g.2 == 0 {
                        Err(TryRecvError::Disconnected)
                    } else {
                        Err(TryRecvError::Empty)
                    }
                }
            }
        }
    }
    impl<T> Drop for Receiver<T> {
        fn drop(&mut self) {
            let mut g = self.chan.q.lock().unwrap();
            g.1 = false;
            g.0.clear();
        }
    }
}

pub mod thread {
    use super::*;

    /// the std API the engine may use on its search thread: join (the model waits for the thread, as std does),
    /// is_finished
    pub struct JoinHandle<T> {
        idx: usize,
        result: std::sync::Arc<std::sync::Mutex<Option<T>>>,
        done: std::sync::Arc<std::sync::atomic::AtomicBool>,
    }

    impl<T> JoinHandle<T> {
        pub fn join(self) -> std::thread::Result<T> {
            let h = ctx().handles.lock().unwrap().get_mut(self.idx).and_then(|h| h.take());
            if let Some(h) = h {
                let _ = h.join();
            }
            match self.result.lock().unwrap().take() {
                Some(v) => Ok(v),
                None => Err(Box::new("the thread panicked")),
            }
        }
        pub fn is_finished(&self) -> bool {
            self.done.load(SeqCst)
        }
    }

    /// spawn a model thread with a stack large enough for the search; the harness joins it at the very
    /// end of the execution so that its tail is explored too. A panic is recorded, not propagated.
    pub fn spawn<F, T>(f: F) -> JoinHandle<T>
    where
        F: FnOnce() -> T + Send + 'static,
        T: Send + 'static,
    {
        let c = ctx();
        let c2 = c.clone();
        let result = std::sync::Arc::new(std::sync::Mutex::new(None));
        let r2 = result.clone();
        let done = std::sync::Arc::new(std::sync::atomic::AtomicBool::new(false));
        let d2 = done.clone();
        let h = loom::thread::Builder::new()
            .stack_size(1 << 21)
            .spawn(move || {
                let r = std::panic::catch_unwind(std::panic::AssertUnwindSafe(f));
                match r {
                    Ok(v) => *r2.lock().unwrap() = Some(v),
                    Err(e) => {
                        let msg = if let Some(s) = e.downcast_ref::<&str>() {
                            s.to_string()
                        } else if let Some(s) = e.downcast_ref::<String>() {
                            s.clone()
                        } else {
                            "panic".to_string()
                        };
                        c2.search_panics.lock().unwrap().push(msg);
                    }
                }
                d2.store(true, SeqCst);
            })
            .expect("spawn");
        let mut hs = c.handles.lock().unwrap();
        hs.push(Some(h));
        JoinHandle { idx: hs.len() - 1, result, done }
    }

    pub struct Livelock;

    /// the polling loop's sleep: a visible yield, with a horizon — once the deadline has passed and
    /// every search thread has finished, a further idle poll cannot change anything.
    pub fn sleep(_d: std::time::Duration) {
        let c = ctx();
        if my_last_answer_expired() && c.search_running.load(SeqCst) == 0 && c.search_entered.load(SeqCst) > 0 {
            let n = c.idle_polls_after_done.fetch_add(1, SeqCst);
            if n >= 3 {
                *c.livelock.lock().unwrap() = Some("the deadline has passed, the search thread has finished, and the polling loop still finds nothing to answer with".to_string());
                std::panic::panic_any(Livelock);
            }
        }
        loom::thread::yield_now();
    }
}


/// Standard output as the engine's two threads see it: `std::io::Stdout` is one line-buffered writer behind a
/// lock that is taken per call (`println!` holds it for the whole line, `write_all` for its bytes only). Every
/// call here takes the model's lock (a scheduling point) and appends to the shared buffer; bytes up to a line
/// feed are a line the GUI receives. Everything else of `std::io` is passed through.
pub mod io {
    pub use std::io::*;
    use super::*;

    fn installed() -> Option<Arc<Ctx>> {
        CTX.lock().unwrap().as_ref().cloned()
    }

    fn drain_lines(c: &Ctx, buf: &mut Vec<u8>) {
        while let Some(i) = buf.iter().position(|b| *b == b'\n') {
            let line: Vec<u8> = buf.drain(..=i).collect();
            c.emitted.lock().unwrap().push(String::from_utf8_lossy(&line[..line.len() - 1]).to_string());
        }
    }

    fn append(bytes: &[u8]) {
        match installed() {
            Some(c) => {
                let mut g = c.stdout_buf.lock().unwrap();
                g.extend_from_slice(bytes);
                drain_lines(&c, &mut g);
            }
            None => {
                let _ = std::io::Write::write_all(&mut std::io::stdout(), bytes);
            }
        }
    }

    /// `print!` / `println!`: the whole text under one acquisition of the lock
    pub fn print_str(s: &str) {
        append(s.as_bytes());
    }

    pub struct Stdout;

    pub fn stdout() -> Stdout {
        Stdout
    }

    impl Stdout {
        pub fn lock(&self) -> StdoutLock {
            let c = installed();
            let guard = c.as_ref().map(|c| {
                let g = c.stdout_buf.lock().unwrap();
                // the guard borrows from the Arc stored next to it (dropped after the guard)
                unsafe { std::mem::transmute::<loom::sync::MutexGuard<'_, Vec<u8>>, loom::sync::MutexGuard<'static, Vec<u8>>>(g) }
            });
            StdoutLock { guard, ctx: c }
        }
        pub fn write_all(&mut self, buf: &[u8]) -> Result<()> {
            append(buf);
            Ok(())
        }
        pub fn write(&mut self, buf: &[u8]) -> Result<usize> {
            append(buf);
            Ok(buf.len())
        }
        pub fn flush(&mut self) -> Result<()> {
            append(b"");
            Ok(())
        }
        pub fn write_fmt(&mut self, args: std::fmt::Arguments<'_>) -> Result<()> {
            // std formats under one lock
            append(std::fmt::format(args).as_bytes());
            Ok(())
        }
    }

    impl std::io::Write for Stdout {
        fn write(&mut self, buf: &[u8]) -> Result<usize> {
            Stdout::write(self, buf)
        }
        fn flush(&mut self) -> Result<()> {
            Stdout::flush(self)
        }
    }

    pub struct StdoutLock {
        guard: Option<loom::sync::MutexGuard<'static, Vec<u8>>>,
        ctx: Option<Arc<Ctx>>,
    }

    impl StdoutLock {
        fn put(&mut self, bytes: &[u8]) {
            match (self.guard.as_mut(), self.ctx.as_ref()) {
                (Some(g), Some(c)) => {
                    g.extend_from_slice(bytes);
                    drain_lines(c, g);
                }
                _ => {
                    let _ = std::io::Write::write_all(&mut std::io::stdout(), bytes);
                }
            }
        }
        pub fn write_all(&mut self, buf: &[u8]) -> Result<()> {
            self.put(buf);
            Ok(())
        }
        pub fn write(&mut self, buf: &[u8]) -> Result<usize> {
            self.put(buf);
            Ok(buf.len())
        }
        pub fn flush(&mut self) -> Result<()> {
            Ok(())
        }
        pub fn write_fmt(&mut self, args: std::fmt::Arguments<'_>) -> Result<()> {
            self.put(std::fmt::format(args).as_bytes());
            Ok(())
        }
    }

    impl std::io::Write for StdoutLock {
        fn write(&mut self, buf: &[u8]) -> Result<usize> {
            StdoutLock::write(self, buf)
        }
        fn flush(&mut self) -> Result<()> {
            Ok(())
        }
    }

    impl Drop for StdoutLock {
        fn drop(&mut self) {
            self.guard = None; // before the Arc it borrows from
        }
    }
}
